// Lane K harness module injected as a child of `crate::path_builder` (sees private items).
#![allow(unused_imports, dead_code)]
use super::*;

fn pt(x: f32, y: f32) -> Point { Point::new(x, y) }
fn same_pt(a: Point, b: Point) -> bool { a.x.to_bits() == b.x.to_bits() && a.y.to_bits() == b.y.to_bits() }

fn any_kind_op(k: u8, i: usize) -> PathOp {
    // coordinates are fixed per position so that lyon's float code sees few distinct values; kinds are symbolic
    let a = pt(1. + 4. * i as f32, 1. + (i as f32) * (i as f32));
    let b = pt(10. - 3. * i as f32, 10. + 2. * i as f32);
    match k {
        0 => PathOp::MoveTo(a),
        1 => PathOp::LineTo(a),
        2 => PathOp::QuadTo(b, a),
        _ => PathOp::Close,
    }
}

/// The contract of Path::flatten, written as the specification the property gives:
/// only MoveTo/LineTo/Close come out; MoveTo/LineTo/Close pass through unchanged and in order; each curve is replaced in
/// place by the polyline lyon produces for the curve that STARTS AT THE CURRENT POINT, where the current point is the last
/// MoveTo/LineTo/curve end point, the subpath's starting point after Close, and the curve's own first control point only
/// when there is no current point at all.
fn flatten_contract(ops: &[PathOp], tol: f32, out: &Path) {
    let mut cur: Option<Point> = None;
    let mut first: Option<Point> = None;
    let mut k = 0usize; // index into out.ops
    let mut i = 0;
    while i < ops.len() {
        match ops[i] {
            PathOp::MoveTo(p) => {
                assert!(k < out.ops.len() && matches!(out.ops[k], PathOp::MoveTo(q) if same_pt(p, q)), "MoveTo preserved in place");
                k += 1; cur = Some(p); first = Some(p);
            }
            PathOp::LineTo(p) => {
                assert!(k < out.ops.len() && matches!(out.ops[k], PathOp::LineTo(q) if same_pt(p, q)), "LineTo preserved in place");
                k += 1;
                if cur.is_none() { first = Some(p); }
                cur = Some(p);
            }
            PathOp::Close => {
                assert!(k < out.ops.len() && matches!(out.ops[k], PathOp::Close), "Close preserved in place");
                k += 1; cur = first;
            }
            PathOp::QuadTo(c, p) => {
                let from = cur.unwrap_or(c);
                if cur.is_none() { first = Some(c); }
                let seg = QuadraticBezierSegment { from, ctrl: c, to: p };
                let mut n = 0;
                let mut last = from;
                for l in seg.flattened(tol) {
                    assert!(k < out.ops.len() && matches!(out.ops[k], PathOp::LineTo(q) if same_pt(l, q)), "curve replaced by the polyline of the curve that starts at the current point");
                    k += 1; n += 1; last = l;
                }
                assert!(n >= 1 && same_pt(last, p), "polyline ends exactly at the curve's end point");
                cur = Some(p);
            }
            PathOp::CubicTo(c1, c2, p) => {
                let from = cur.unwrap_or(c1);
                if cur.is_none() { first = Some(c1); }
                let seg = CubicBezierSegment { from, ctrl1: c1, ctrl2: c2, to: p };
                let mut n = 0;
                let mut last = from;
                for l in seg.flattened(tol) {
                    assert!(k < out.ops.len() && matches!(out.ops[k], PathOp::LineTo(q) if same_pt(l, q)), "curve replaced by the polyline of the curve that starts at the current point");
                    k += 1; n += 1; last = l;
                }
                assert!(n >= 1 && same_pt(last, p), "polyline ends exactly at the curve's end point");
                cur = Some(p);
            }
        }
        i += 1;
    }
    assert!(k == out.ops.len(), "nothing else is emitted");
}

fn flatten_case(ops: Vec<PathOp>, tol: f32) {
    let p = Path { ops: ops.clone(), winding: Winding::EvenOdd };
    let out = p.flatten(tol);
    flatten_contract(&ops, tol, &out);
    kani::cover!(out.ops.len() >= ops.len());
}
// @ob id=K.flatten_after_close props=C16 kind=bounded:concrete-sequence tier=quick timeout=300 fns=Path::flatten
// @+ desc="MoveTo LineTo LineTo Close QuadTo: the curve following Close starts at the subpath's starting point (same rule as filling the unflattened path); non-curve ops preserved in place; polyline ends exactly at the end point"
#[kani::proof]
#[kani::unwind(30)]
fn k_flatten_after_close() {
    flatten_case(vec![PathOp::MoveTo(pt(1., 1.)), PathOp::LineTo(pt(5., 1.)), PathOp::LineTo(pt(5., 5.)), PathOp::Close, PathOp::QuadTo(pt(10., 10.), pt(20., 1.))], 2.0);
}
