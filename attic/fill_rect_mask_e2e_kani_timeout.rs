// did not finish in 40 min (symbolic integer rectangle through add_edge + rasterize + MaskSuperBlitter on 2x2)
// ------------------------------------------------------------------ end to end through the real rasteriser (C01, C14 #2) -- thorough
// @ob id=K.fill_rect_mask_e2e props=C01,C14 kind=bounded:surface=2x2,rect-in[-1,3] tier=thorough timeout=3000 fns=DrawTarget::fill,DrawTarget::apply_path,Rasterizer::add_edge,Rasterizer::rasterize,MaskSuperBlitter::blit_span
// @+ desc="end to end through the REAL path replay, edge set-up, scan conversion and supersampling blitter (only composite is a recorder): filling PathBuilder::rect(x,y,w,h) with integer x,y in [-1,2], w,h in [1,3] on a 2x2 surface hands composite a coverage mask that is 255 exactly on the rectangle ∩ surface (64+64+64+63 per fully covered pixel) and 0 elsewhere inside the mask rect, and a mask rect that contains the rectangle ∩ surface"
#[kani::proof]
#[kani::unwind(12)]
#[kani::stub(DrawTarget::composite, composite_mask_rec)]
#[kani::stub(DrawTarget::quad_to, quad_to_rec)]
#[kani::stub(DrawTarget::cubic_to, cubic_to_rec)]
fn k_fill_rect_mask_e2e() {
    let mut dt = DrawTarget::new(2, 2);
    let (x, y, w, h): (i8, i8, i8, i8) = (kani::any(), kani::any(), kani::any(), kani::any());
    kani::assume(x >= -1 && x <= 2 && y >= -1 && y <= 2 && w >= 1 && w <= 3 && h >= 1 && h <= 3);
    let mut pb = PathBuilder::new();
    pb.rect(x as f32, y as f32, w as f32, h as f32);
    let path = pb.finish();
    unsafe { MASK_N = 0; }
    dt.fill(&path, &Source::Solid(SolidSource { r: 255, g: 255, b: 255, a: 255 }), &DrawOptions::new());
    let (x0, y0, x1, y1) = ((x as i32).max(0), (y as i32).max(0), (x as i32 + w as i32).min(2), (y as i32 + h as i32).min(2));
    let n = unsafe { MASK_N };
    if x0 >= x1 || y0 >= y1 {
        // nothing of the rectangle is on the surface: either no composite or an all-zero mask
        if n == 1 { let mut i = 0; while i < 4 { assert!(unsafe { MASK_COPY[i] } == 0 || i >= unsafe { MASK_LEN }, "off-surface rectangle covers nothing"); i += 1; } }
    } else {
        assert!(n == 1, "one composite");
        let mr = unsafe { MASK_RECT };
        assert!(mr.min.x <= x0 && mr.min.y <= y0 && mr.max.x >= x1 && mr.max.y >= y1 && mr.min.x >= 0 && mr.min.y >= 0 && mr.max.x <= 2 && mr.max.y <= 2, "mask rect contains the visible rectangle and lies on the surface");
        let mw = mr.max.x - mr.min.x;
        let mut py = 0;
        while py < 2 {
            let mut px = 0;
            while px < 2 {
                if px >= mr.min.x && px < mr.max.x && py >= mr.min.y && py < mr.max.y {
                    let v = unsafe { MASK_COPY[((py - mr.min.y) * mw + (px - mr.min.x)) as usize] };
                    let inside = px >= x0 && px < x1 && py >= y0 && py < y1;
                    assert!(v == if inside { 255 } else { 0 }, "coverage 255 exactly on the rectangle, 0 elsewhere");
                }
                px += 1;
            }
            py += 1;
        }
    }
    kani::cover!(n == 1 && x == -1 && w == 2);
    kani::cover!(n == 1 && x0 == 1 && y0 == 1);
}
pub static mut MASK_COPY: [u8; 5] = [0; 5];
pub static mut MASK_LEN: usize = 0;
pub static mut MASK_N: usize = 0;
pub static mut MASK_RECT: IntRect = ZR;
fn composite_mask_rec<Backing: AsRef<[u32]> + AsMut<[u32]>>(_dt: &mut DrawTarget<Backing>, _src: &Source, mask: Option<&[u8]>, mask_rect: IntRect, _rect: IntRect, _blend: BlendMode, _alpha: f32) {
    unsafe {
        MASK_N += 1;
        MASK_RECT = mask_rect;
        if let Some(m) = mask {
            MASK_LEN = m.len();
            let mut i = 0;
            while i < 5 { if i < m.len() { MASK_COPY[i] = m[i]; } i += 1; }
        }
    }
}

