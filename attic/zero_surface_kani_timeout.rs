// the real fill/push_clip/pop_layer pipeline on zero-sized surfaces with concrete arguments did not finish in 10 min
// ------------------------------------------------------------------ zero-sized surfaces (C07: degenerate values are harmless)
fn zero_surface_calls(w: i32, h: i32) {
    let mut dt = DrawTarget::new(w, h);
    let mut pb = PathBuilder::new();
    pb.rect(0., 0., 1., 1.);
    let path = pb.finish();
    let src = Source::Solid(SolidSource { r: 1, g: 2, b: 3, a: 255 });
    dt.fill(&path, &src, &DrawOptions::new());
    dt.fill_rect(0., 0., 1., 1., &src, &DrawOptions::new());
    dt.push_clip_rect(intrect(-1, -1, 2, 2));
    dt.push_layer(0.5);
    dt.clear(SolidSource { r: 0, g: 0, b: 0, a: 0 });
    dt.pop_layer();
    dt.pop_clip();
    dt.push_clip(&path);
    dt.fill_rect(0., 0., 1., 1., &src, &DrawOptions::new());
    dt.pop_clip();
    let m = Mask { width: 1, height: 1, data: vec![255] };
    dt.mask(&src, 0, 0, &m);
    assert!(dt.get_data().len() == (w * h) as usize && dt.clip_stack.len() == 0 && dt.layer_stack.len() == 0, "nothing left behind");
    kani::cover!(true);
}
// @ob id=K.zero_surface props=C07 kind=bounded:concrete-call-sequence tier=quick timeout=900 fns=DrawTarget::new,DrawTarget::fill,DrawTarget::fill_rect,DrawTarget::push_clip,DrawTarget::push_layer,DrawTarget::pop_layer,DrawTarget::clear,DrawTarget::mask
// @+ desc="zero-sized surfaces are harmless: on 0x0, 0x2 and 2x0 targets a fixed sequence of every kind of drawing call (fill, fill_rect, push_clip_rect, push_layer, clear, pop_layer, push_clip, mask) through the REAL code raises no panic, overflow or out-of-bounds access and leaves the stacks balanced (concrete arguments: a bounded run, not a proof over inputs)"
#[kani::proof]
#[kani::unwind(12)]
fn k_zero_surface() {
    zero_surface_calls(0, 0);
    zero_surface_calls(0, 2);
    zero_surface_calls(2, 0);
}
