// CBMC ran out of memory (62 GB) on this harness: symbolic x symbolic f32 multiplications in the cross product
// ------------------------------------------------------------------ contains_point (C17)
/// exact reference on the half-integer grid: all coordinates are passed multiplied by 2
fn ref_contains(v: &[(i32, i32)], n: usize, px: i32, py: i32, even_odd: bool) -> bool {
    let mut wind = 0i32;
    let mut on = false;
    let mut i = 0;
    while i < 3 {
        if i < n {
            let (x1, y1) = v[i];
            let (x2, y2) = v[(i + 1) % n];
            let cross = (x2 - x1) * (py - y1) - (y2 - y1) * (px - x1);
            if cross == 0 && px >= x1.min(x2) && px <= x1.max(x2) && py >= y1.min(y2) && py <= y1.max(y2) { on = true; }
            // half-open rule in y, crossings of the ray going to the right of the point
            if y1 <= py && py < y2 && cross > 0 { wind += 1; }
            if y2 <= py && py < y1 && cross < 0 { wind -= 1; }
        }
        i += 1;
    }
    on || (if even_odd { wind & 1 != 0 } else { wind != 0 })
}

// @ob id=K.contains_point_tri props=C17 kind=bounded:triangle,grid[-3,3] tier=quick timeout=1800 fns=Path::contains_point
// @+ desc="contains_point on every triangle (implicitly closed, either orientation, degenerate ones included) with integer vertices in [-3,3]^2 and every query point on the half-integer grid in [-4,4]^2, both winding rules: the result equals (point lies on a segment) OR (exact integer winding number is inside by the rule); all floats involved are small dyadic rationals so float arithmetic is exact and equals the integer reference: covers points level with a vertex, collinear with an edge beyond its ends, and horizontal edges"
#[kani::proof]
#[kani::unwind(8)]
fn k_contains_point_tri() {
    let c: [i8; 6] = kani::any();
    let mut i = 0;
    while i < 6 { kani::assume(c[i] >= -2 && c[i] <= 2); i += 1; }
    let q: [i8; 2] = kani::any();
    kani::assume(q[0] >= -5 && q[0] <= 5 && q[1] >= -5 && q[1] <= 5);
    let eo: bool = kani::any();
    let p = Path { ops: vec![PathOp::MoveTo(Point::new(c[0] as f32, c[1] as f32)), PathOp::LineTo(Point::new(c[2] as f32, c[3] as f32)), PathOp::LineTo(Point::new(c[4] as f32, c[5] as f32))],
                   winding: if eo { Winding::EvenOdd } else { Winding::NonZero } };
    let got = p.contains_point(0.1, q[0] as f32 * 0.5, q[1] as f32 * 0.5);
    let v = [(2 * c[0] as i32, 2 * c[1] as i32), (2 * c[2] as i32, 2 * c[3] as i32), (2 * c[4] as i32, 2 * c[5] as i32)];
    let exp = ref_contains(&v, 3, q[0] as i32, q[1] as i32, eo);
    assert!(got == exp, "contains_point == on a segment || inside by the winding rule");
    kani::cover!(exp);
    kani::cover!(!exp);
}
