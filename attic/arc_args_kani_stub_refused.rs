// kani::stub refuses lyon_geom::Arc::for_each_quadratic_bezier (generic parameter mismatch reported as `&Arc<S>` vs `&Arc<S>`)
// ------------------------------------------------------------------ PathBuilder::arc as a caller of lyon (C20 #4, structure only)
pub static mut ARC_LOG: (usize, [u32; 7]) = (0, [0; 7]);
fn b32<T: Copy>(v: T) -> u32 { assert!(core::mem::size_of::<T>() == 4); unsafe { core::mem::transmute_copy::<T, u32>(&v) } }
fn f32_to<T: Copy>(v: f32) -> T { assert!(core::mem::size_of::<T>() == 4); unsafe { core::mem::transmute_copy::<f32, T>(&v) } }
fn arc_from_rec<S: lyon_geom::Scalar>(a: &lyon_geom::Arc<S>) -> lyon_geom::Point<S> {
    unsafe { ARC_LOG.0 += 1; ARC_LOG.1 = [b32(a.center.x), b32(a.center.y), b32(a.radii.x), b32(a.radii.y), b32(a.start_angle.radians), b32(a.sweep_angle.radians), b32(a.x_rotation.radians)]; }
    lyon_geom::Point::new(f32_to::<S>(7.0), f32_to::<S>(9.0))
}
fn arc_quads_rec<S: lyon_geom::Scalar, F>(a: &lyon_geom::Arc<S>, cb: &mut F)
where F: FnMut(&QuadraticBezierSegment<S>),
{
    unsafe { ARC_LOG.0 += 10; }
    assert!(unsafe { ARC_LOG.1 } == [b32(a.center.x), b32(a.center.y), b32(a.radii.x), b32(a.radii.y), b32(a.start_angle.radians), b32(a.sweep_angle.radians), b32(a.x_rotation.radians)], "the same arc is flattened");
    let p = |x: f32, y: f32| lyon_geom::Point::new(f32_to::<S>(x), f32_to::<S>(y));
    cb(&QuadraticBezierSegment { from: p(7., 9.), ctrl: p(1., 2.), to: p(3., 4.) });
    cb(&QuadraticBezierSegment { from: p(3., 4.), ctrl: p(5., 6.), to: p(7., 8.) });
}

// @ob id=K.arc_args props=C20 kind=complete unwind_complete=yes tier=quick timeout=600 fns=PathBuilder::arc
// @+ desc="PathBuilder::arc(x,y,r,start,sweep) for EVERY f32 argument: hands lyon_geom exactly the circular arc {center (x,y), radii (r,r), start angle start, sweep angle sweep (sign and magnitude untouched), no rotation}; emits a straight LineTo to that arc's starting point first and then exactly one QuadTo(ctrl, to) per quadratic lyon produces, in order (lyon's Arc::from / for_each_quadratic_bezier replaced by recorders; its trigonometry is not decided)"
#[kani::proof]
#[kani::unwind(8)]
#[kani::stub(lyon_geom::Arc::from, arc_from_rec)]
#[kani::stub(lyon_geom::Arc::for_each_quadratic_bezier, arc_quads_rec)]
fn k_arc_args() {
    let v: [f32; 5] = kani::any();
    let mut pb = PathBuilder::new();
    unsafe { ARC_LOG.0 = 0; }
    pb.arc(v[0], v[1], v[2], v[3], v[4]);
    let p = pb.finish();
    let l = unsafe { ARC_LOG };
    assert!(l.0 == 11, "start point taken once, quadratics enumerated once");
    assert!(l.1[0] == v[0].to_bits() && l.1[1] == v[1].to_bits() && l.1[2] == v[2].to_bits() && l.1[3] == v[2].to_bits(), "centre (x,y), circular radii (r,r)");
    assert!(l.1[4] == v[3].to_bits() && l.1[5] == v[4].to_bits(), "start and sweep angles passed through unchanged (sign included)");
    assert!(f32::from_bits(l.1[6]) == 0., "no axis rotation");
    assert!(p.ops.len() == 3, "LineTo + one QuadTo per quadratic");
    assert!(matches!(p.ops[0], PathOp::LineTo(q) if q.x == 7. && q.y == 9.), "straight line to the arc's starting point first");
    assert!(matches!(p.ops[1], PathOp::QuadTo(c, q) if c.x == 1. && c.y == 2. && q.x == 3. && q.y == 4.), "first quadratic");
    assert!(matches!(p.ops[2], PathOp::QuadTo(c, q) if c.x == 5. && c.y == 6. && q.x == 7. && q.y == 8.), "second quadratic");
    kani::cover!(v[4] < -7.);
}
