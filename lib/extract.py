"""Token-level Rust scanner used by the Verus lane.

It finds items *by name* in the real source files under /repo/src and returns
their text byte for byte.  What it does is a closed list (DESIGN.md §2.1):

  * copy the signature and the body `{...}` of a named fn (free, or inside a
    named `impl` block), or a named struct / const / type / trait item;
  * drop outer attributes and doc comments that precede the item;
  * splice a contract text between the signature and the body's `{`;
  * splice loop clauses between a loop header and the loop body's `{`,
    addressed by loop ordinal (source order of the `for`/`while`/`loop`
    keywords inside the function body);
  * never change anything inside a body.

Anything it cannot find raises ExtractError; the caller turns that into an
UNDECIDED verdict, never into a violation.
"""
import re


class ExtractError(Exception):
    pass


IDENT = re.compile(r"[A-Za-z_][A-Za-z0-9_]*")


def tokenize(src):
    """Yield (kind, text, start, end). kind in {ident, punct, lit, comment, ws}.
    Handles //, nested /* */, "strings", r#"raw"#, b"..", 'c' chars vs 'lifetimes."""
    i, n = 0, len(src)
    out = []
    while i < n:
        c = src[i]
        if c in " \t\r\n":
            j = i
            while j < n and src[j] in " \t\r\n":
                j += 1
            out.append(("ws", src[i:j], i, j))
            i = j
        elif src.startswith("//", i):
            j = src.find("\n", i)
            j = n if j < 0 else j
            out.append(("comment", src[i:j], i, j))
            i = j
        elif src.startswith("/*", i):
            depth, j = 1, i + 2
            while j < n and depth:
                if src.startswith("/*", j):
                    depth += 1
                    j += 2
                elif src.startswith("*/", j):
                    depth -= 1
                    j += 2
                else:
                    j += 1
            out.append(("comment", src[i:j], i, j))
            i = j
        elif c == '"' or (c in "br" and re.match(r'b?r?#*"', src[i:i + 8])):
            m = re.match(r'(b?)(r?)(#*)"', src[i:])
            raw, hashes = m.group(2), m.group(3)
            j = i + m.end()
            if raw:
                endtok = '"' + hashes
                k = src.find(endtok, j)
                if k < 0:
                    raise ExtractError("unterminated raw string")
                j = k + len(endtok)
            else:
                while j < n and src[j] != '"':
                    j += 2 if src[j] == "\\" else 1
                j += 1
            out.append(("lit", src[i:j], i, j))
            i = j
        elif c == "'":
            # char literal or lifetime
            m = re.match(r"'(\\.[^']*|[^\\'])'", src[i:])
            if m:
                j = i + m.end()
                out.append(("lit", src[i:j], i, j))
            else:
                m = IDENT.match(src, i + 1)
                j = m.end() if m else i + 1
                out.append(("lifetime", src[i:j], i, j))
            i = j
        elif c.isalpha() or c == "_":
            m = IDENT.match(src, i)
            out.append(("ident", m.group(0), i, m.end()))
            i = m.end()
        elif c.isdigit():
            m = re.match(r"[0-9][0-9A-Za-z_]*(\.[0-9][0-9A-Za-z_]*)?", src[i:])
            # keep `1..2` as 1 .. 2 and `1.` as literal
            txt = m.group(0)
            j = i + len(txt)
            if j < n and src[j] == "." and not src.startswith("..", j) and not (j + 1 < n and (src[j + 1].isalpha() or src[j + 1] == "_")):
                j += 1
            out.append(("lit", src[i:j], i, j))
            i = j
        else:
            out.append(("punct", c, i, i + 1))
            i += 1
    return out


class Source:
    def __init__(self, path):
        self.path = path
        with open(path, encoding="utf-8") as f:
            self.text = f.read()
        self.toks = tokenize(self.text)
        self.sig = [t for t in self.toks if t[0] not in ("ws", "comment")]
        # index in self.sig by start offset
        self.line_starts = [0]
        for m in re.finditer("\n", self.text):
            self.line_starts.append(m.end())

    def line_of(self, off):
        import bisect
        return bisect.bisect_right(self.line_starts, off)

    # ---- brace matching over significant tokens -------------------------
    def match_close(self, k, open_ch="{", close_ch="}"):
        """k indexes self.sig at an open token; returns index of the matching close."""
        depth = 0
        for j in range(k, len(self.sig)):
            t = self.sig[j]
            if t[0] == "punct":
                if t[1] == open_ch:
                    depth += 1
                elif t[1] == close_ch:
                    depth -= 1
                    if depth == 0:
                        return j
        raise ExtractError("unbalanced %s in %s" % (open_ch, self.path))

    def _impl_blocks(self):
        """Yield (header_text_normalised, header_start_idx, open_idx, close_idx)."""
        sig = self.sig
        depth = 0
        k = 0
        while k < len(sig):
            t = sig[k]
            if t[0] == "punct" and t[1] == "{":
                depth += 1
            elif t[0] == "punct" and t[1] == "}":
                depth -= 1
            elif t[0] == "ident" and t[1] == "impl" and depth == 0:
                # header runs to the first `{` at angle-agnostic level (no braces in impl headers here)
                j = k
                while not (sig[j][0] == "punct" and sig[j][1] == "{"):
                    j += 1
                close = self.match_close(j)
                hdr = " ".join(x[1] for x in sig[k:j])
                yield hdr, k, j, close
                # do not skip the block: nested scanning not needed, but keep depth right
                k = j
                continue
            k += 1

    @staticmethod
    def _norm(s):
        return re.sub(r"\s+", "", s)

    def find_impl(self, impl_pat):
        """impl_pat: text that must be contained (whitespace-insensitively) in the impl header,
        e.g. 'RasterBlitter for MaskBlitter' or 'impl Rasterizer'.  Returns list of (open, close)."""
        want = self._norm(impl_pat)
        res = []
        for hdr, k, o, c in self._impl_blocks():
            if want in self._norm(hdr):
                res.append((hdr, k, o, c))
        return res

    def _skip_back_attrs(self, k):
        """Given sig index k of the first token of an item (after visibility), return the
        text offset where the item proper starts (attributes/doc comments dropped)."""
        return self.sig[k][2]

    def find_fn(self, name, impl_pat=None):
        """Return dict(sig_text, body_text, start_line, end_line, body_start_off, fn_start_off)."""
        sig = self.sig
        ranges = [(0, len(sig))]
        if impl_pat is not None:
            blocks = self.find_impl(impl_pat)
            if not blocks:
                raise ExtractError("impl block '%s' not found in %s" % (impl_pat, self.path))
            ranges = [(o, c) for (_h, _k, o, c) in blocks]
        hits = []
        for lo, hi in ranges:
            base_depth = 1 if impl_pat is not None else 0
            depth = 0
            k = lo
            while k < hi:
                t = sig[k]
                if t[0] == "punct" and t[1] == "{":
                    depth += 1
                elif t[0] == "punct" and t[1] == "}":
                    depth -= 1
                elif (t[0] == "ident" and t[1] == "fn" and depth == base_depth
                      and k + 1 < hi and sig[k + 1][1] == name):
                    # item start: walk back over pub / pub(crate) / const / unsafe / extern
                    s = k
                    while s - 1 >= 0 and sig[s - 1][0] == "ident" and sig[s - 1][1] in ("pub", "const", "unsafe", "async"):
                        s -= 1
                    if s - 1 >= 0 and sig[s - 1][1] == ")" :
                        # pub(crate)
                        p = s - 1
                        while sig[p][1] != "(":
                            p -= 1
                        if p - 1 >= 0 and sig[p - 1][1] == "pub":
                            s = p - 1
                    # body open: first `{` at paren depth 0 after k (where clauses have no braces)
                    j = k
                    pd = 0
                    while True:
                        tt = sig[j]
                        if tt[0] == "punct" and tt[1] in "([":
                            pd += 1
                        elif tt[0] == "punct" and tt[1] in ")]":
                            pd -= 1
                        elif tt[0] == "punct" and tt[1] == "{" and pd == 0:
                            break
                        elif tt[0] == "punct" and tt[1] == ";" and pd == 0:
                            break
                        j += 1
                    if sig[j][1] == ";":
                        hits.append(dict(kind="decl", s=s, k=k, open=j, close=j))
                    else:
                        close = self.match_close(j)
                        hits.append(dict(kind="fn", s=s, k=k, open=j, close=close))
                        k = close
                        continue
                k += 1
        if not hits:
            raise ExtractError("fn %s (impl %s) not found in %s" % (name, impl_pat, self.path))
        if len(hits) > 1:
            raise ExtractError("fn %s (impl %s) ambiguous in %s (%d matches)" % (name, impl_pat, self.path, len(hits)))
        h = hits[0]
        t = self.text
        fn_start = sig[h["s"]][2]
        body_open = sig[h["open"]][2]
        body_close = sig[h["close"]][3]
        return dict(
            sig_text=t[fn_start:body_open].rstrip(),
            body_text=t[body_open:body_close],
            start_line=self.line_of(fn_start),
            end_line=self.line_of(body_close - 1),
            body_open_idx=h["open"], body_close_idx=h["close"],
            is_decl=(h["kind"] == "decl"),
        )

    def find_item(self, kind, name):
        """kind in struct|const|type|trait|enum|static: returns exact text of the item (attributes dropped)."""
        sig = self.sig
        depth = 0
        for k, t in enumerate(sig):
            if t[0] == "punct" and t[1] == "{":
                depth += 1
            elif t[0] == "punct" and t[1] == "}":
                depth -= 1
            elif t[0] == "ident" and t[1] == kind and depth == 0 and k + 1 < len(sig) and sig[k + 1][1] == name:
                s = k
                if s - 1 >= 0 and sig[s - 1][1] == "pub":
                    s -= 1
                elif s - 1 >= 0 and sig[s - 1][1] == ")":
                    p = s - 1
                    while sig[p][1] != "(":
                        p -= 1
                    if sig[p - 1][1] == "pub":
                        s = p - 1
                j = k
                while True:
                    tt = sig[j]
                    if tt[0] == "punct" and tt[1] == "{":
                        j = self.match_close(j)
                        break
                    if tt[0] == "punct" and tt[1] == ";":
                        break
                    j += 1
                return dict(text=self.text[sig[s][2]:sig[j][3]],
                            start_line=self.line_of(sig[s][2]), end_line=self.line_of(sig[j][3] - 1))
        raise ExtractError("%s %s not found in %s" % (kind, name, self.path))

    def loop_headers(self, fninfo):
        """Offsets (relative to body_text start) of the `{` opening each loop body,
        in source order of the loop keywords (for / while / loop)."""
        sig = self.sig
        o, c = fninfo["body_open_idx"], fninfo["body_close_idx"]
        base = sig[o][2]
        res = []
        k = o + 1
        while k < c:
            t = sig[k]
            if t[0] == "ident" and t[1] in ("for", "while", "loop"):
                # `for<'a>` higher-ranked bounds do not occur inside bodies here
                j = k + 1
                pd = 0
                in_off = None
                while True:
                    tt = sig[j]
                    if tt[0] == "punct" and tt[1] in "([":
                        pd += 1
                    elif tt[0] == "punct" and tt[1] in ")]":
                        pd -= 1
                    elif tt[0] == "punct" and tt[1] == "{" and pd == 0:
                        break
                    elif tt[0] == "ident" and tt[1] == "in" and pd == 0 and t[1] == "for" and in_off is None:
                        in_off = tt[3] - base
                    j += 1
                res.append(dict(kw=t[1], brace_off=sig[j][2] - base, kw_off=t[2] - base, in_off=in_off,
                                line=self.line_of(t[2])))
            k += 1
        return res


def splice_fn(src, name, impl_pat=None, contract="", loops=None, drop_pub=False, ret_name=None, iter_names=None):
    """Return (text, meta): the function text with `contract` spliced between signature and body
    and loops[i] spliced before the `{` of the i-th loop.  Body bytes are unchanged."""
    info = src.find_fn(name, impl_pat)
    body = info["body_text"]
    loops = loops or {}
    hdrs = src.loop_headers(info) if not info["is_decl"] else []
    for ordn in loops:
        if int(ordn) >= len(hdrs):
            raise ExtractError("fn %s has %d loops, clause for loop #%s has no anchor" % (name, len(hdrs), ordn))
    # insert from the back so offsets stay valid
    pieces = [(hdrs[int(o)]["brace_off"], "\n" + txt.strip() + "\n") for o, txt in loops.items()]
    for o, nm in (iter_names or {}).items():
        if int(o) >= len(hdrs) or hdrs[int(o)]["in_off"] is None:
            raise ExtractError("fn %s: loop #%s is not a `for .. in ..` loop, cannot name its iterator" % (name, o))
        # Verus ghost-iterator label: `for x in e` is written `for x in NAME: e` (header only)
        pieces.append((hdrs[int(o)]["in_off"], " " + nm + ":"))
    pieces = sorted(pieces, reverse=True)
    new_body = body
    for off, txt in pieces:
        new_body = new_body[:off] + txt + new_body[off:]
    sig_text = info["sig_text"]
    if ret_name:
        # name the return value: `-> T` becomes `-> (r: T)`; the arrow is the last `->` at paren depth 0
        depth = 0
        pos = -1
        for i, ch in enumerate(sig_text):
            if ch in "([":
                depth += 1
            elif ch in ")]":
                depth -= 1
            elif ch == "-" and sig_text[i:i + 2] == "->" and depth == 0:
                pos = i
        if pos < 0:
            raise ExtractError("fn %s has no return type to name" % name)
        ty = sig_text[pos + 2:].strip()
        sig_text = sig_text[:pos] + "-> (" + ret_name + ": " + ty + ")"
    text = sig_text + "\n" + (contract.strip() + "\n" if contract.strip() else "") + new_body
    meta = dict(name=name, impl=impl_pat, file=src.path, lines=(info["start_line"], info["end_line"]),
                n_loops=len(hdrs), body_len=len(body))
    # sanity: removing the inserted clause texts gives back the body byte for byte
    chk = new_body
    for off, txt in sorted(pieces):
        pass
    return text, meta
