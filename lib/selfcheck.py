#!/usr/bin/env python3
"""setup_cmd: nothing is built ahead of time (each check rebuilds from /repo's working tree);
this only confirms that the tools the checks need are present."""
import shutil, sys, tomllib  # noqa
missing = [t for t in ("verus", "cargo-kani", "cargo", "cbmc") if shutil.which(t) is None]
if missing:
    print("missing tools:", missing); sys.exit(1)
import os
sys.path.insert(0, os.path.dirname(os.path.abspath(__file__)))
import kani_lane
obs = kani_lane.parse_registry()
names = [o.get("harness", "") for o in obs]
bad = [o["id"] for o in obs if not o.get("harness", "").startswith("k_")]
dup = sorted(set(n for n in names if names.count(n) > 1))
for o in obs:
    txt = open(os.path.join(kani_lane.KDIR, o["module_file"])).read()
    if ("fn %s(" % o.get("harness", "?")) not in txt and ("(%s," % o.get("harness", "?")) not in txt:
        bad.append(o["id"])
if bad or dup:
    print("registry problem:", bad, dup); sys.exit(1)
print("ok: %d lane-K obligations registered" % len(obs))
