#!/usr/bin/env python3
"""setup_cmd: nothing is built ahead of time (each check rebuilds from /repo's working tree);
this only confirms that the tools the checks need are present."""
import shutil, sys, tomllib  # noqa
missing = [t for t in ("verus", "cargo-kani", "cargo", "cbmc") if shutil.which(t) is None]
if missing:
    print("missing tools:", missing); sys.exit(1)
print("ok")
