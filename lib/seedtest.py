#!/usr/bin/env python3
"""Development tool (not a registered check): confirm a seeded change and run checks against it.

  seedtest.py confirm <seed_dir>            confirm on scratch copies of /repo HEAD: clean -> demo passes; patched -> compiles,
                                            existing suite passes, demo fails.  Writes <seed_dir>/confirm.json
  seedtest.py detect <seed_dir> C02 [C03..] run ./check <prop> --repo <patched scratch copy>; prints which obligations fail
"""
import json
import os
import re
import shutil
import subprocess
import sys
import time

VERIF = os.path.dirname(os.path.dirname(os.path.abspath(__file__)))


def sh(cmd, cwd, timeout=1800):
    p = subprocess.run(cmd, cwd=cwd, shell=True, capture_output=True, text=True, timeout=timeout)
    return p.returncode, p.stdout + p.stderr


def scratch(tag):
    d = "/var/tmp/seed.%s.%d" % (tag, os.getpid())
    if os.path.exists(d):
        shutil.rmtree(d)
    os.makedirs(d)
    rc, out = sh("git -C /repo archive HEAD | tar -x -C %s" % d, "/")
    assert rc == 0, out
    if not os.path.exists(d + "/Cargo.lock"):
        shutil.copy("/repo/Cargo.lock", d + "/Cargo.lock")
    return d


def tests_summary(out):
    return re.findall(r"test result: (\w+)\. (\d+) passed; (\d+) failed", out)


def confirm(seed):
    res = {}
    d = scratch("c")
    try:
        os.makedirs(d + "/tests", exist_ok=True)
        shutil.copy(os.path.join(seed, "demo.rs"), d + "/tests/demo.rs")
        rc, out = sh("cargo test --offline --test demo 2>&1", d)
        res["clean_demo"] = {"rc": rc, "summary": tests_summary(out)}
        rc, out = sh("git init -q . && git apply --whitespace=nowarn %s" % os.path.abspath(os.path.join(seed, "patch.diff")), d)
        res["apply"] = {"rc": rc, "out": out[-500:]}
        if rc == 0:
            rc, out = sh("cargo test --offline --test demo 2>&1", d)
            res["patched_demo"] = {"rc": rc, "summary": tests_summary(out), "tail": out[-1500:] if rc else ""}
            os.remove(d + "/tests/demo.rs")
            rc, out = sh("cargo test --workspace --no-fail-fast --offline 2>&1", d)
            res["patched_suite"] = {"rc": rc, "summary": tests_summary(out)}
        res["confirmed"] = (res["clean_demo"]["rc"] == 0 and res["apply"]["rc"] == 0 and res.get("patched_demo", {}).get("rc", 0) != 0
                            and res.get("patched_suite", {}).get("rc", 1) == 0)
    finally:
        shutil.rmtree(d, ignore_errors=True)
    with open(os.path.join(seed, "confirm.json"), "w") as f:
        json.dump(res, f, indent=1)
    print(os.path.basename(os.path.dirname(seed + "/")), "confirmed" if res["confirmed"] else "NOT CONFIRMED", json.dumps({k: v for k, v in res.items() if k != "confirmed"})[:600])
    return res["confirmed"]


def detect(seed, props, tier="quick"):
    d = scratch("d")
    out_all = {}
    try:
        rc, out = sh("git init -q . && git apply --whitespace=nowarn %s" % os.path.abspath(os.path.join(seed, "patch.diff")), d)
        assert rc == 0, out
        for p in props:
            t0 = time.time()
            rc, out = sh("./check %s --tier %s --repo %s 2>&1" % (p, tier, d), VERIF, timeout=7200)
            fails = re.findall(r"^(FAIL|UNDECIDED)\s+(\S+)", out, flags=re.M)
            viol = re.findall(r"^VIOLATION.*$", out, flags=re.M)
            out_all[p] = {"rc": rc, "fails": fails, "violations": viol, "wall": round(time.time() - t0)}
            print(os.path.basename(os.path.abspath(seed)), p, "rc=%d" % rc, fails, viol[:2])
    finally:
        shutil.rmtree(d, ignore_errors=True)
    with open(os.path.join(seed, "detect.json" if tier == "quick" else "detect_%s.json" % tier), "w") as f:
        json.dump(out_all, f, indent=1)
    return out_all


def benign(seed, props, tier="quick"):
    """behaviour-preserving refactoring: suite must pass, checks must raise no alarm (exit 0; exit 2 = undecided is reported)"""
    d = scratch("b")
    out_all = {}
    try:
        rc, out = sh("git init -q . && git apply --whitespace=nowarn %s" % os.path.abspath(os.path.join(seed, "patch.diff")), d)
        assert rc == 0, out
        rc, out = sh("cargo test --workspace --no-fail-fast --offline 2>&1", d)
        out_all["suite"] = {"rc": rc, "summary": tests_summary(out)}
        sh("rm -rf target", d)
        for p in props:
            rc, out = sh("./check %s --tier %s --repo %s 2>&1" % (p, tier, d), VERIF, timeout=7200)
            notes = re.findall(r"^(FAIL|UNDECIDED)\s+(\S+)", out, flags=re.M)
            down = re.findall(r"^PASS\s+(\S+)\s+\[V bounded:lane-V undecided", out, flags=re.M)
            out_all[p] = {"rc": rc, "not_pass": notes, "downgraded": down}
            print(os.path.basename(os.path.abspath(seed)), p, "rc=%d" % rc, notes, "downgraded:", down)
    finally:
        shutil.rmtree(d, ignore_errors=True)
    with open(os.path.join(seed, "benign_result.json"), "w") as f:
        json.dump(out_all, f, indent=1)


if __name__ == "__main__":
    if sys.argv[1] == "confirm":
        sys.exit(0 if confirm(sys.argv[2]) else 1)
    elif sys.argv[1] == "benign":
        benign(sys.argv[2], sys.argv[3:], os.environ.get("TIER", "quick"))
    elif sys.argv[1] == "detect":
        detect(sys.argv[2], sys.argv[3:], os.environ.get("TIER", "quick"))
