#!/usr/bin/env python3
"""Regenerates /verif/MANIFEST.json from claims.toml (so the two cannot drift)."""
import json
import os
import tomllib

HERE = os.path.dirname(os.path.dirname(os.path.abspath(__file__)))


def main():
    with open(os.path.join(HERE, "claims.toml"), "rb") as f:
        claims = tomllib.load(f)
    props = [json.loads(l)["id"] for l in open(os.path.join(HERE, "properties.jsonl")) if l.strip()]
    checks = []
    na = []
    for p in props:
        c = claims.get(p, {})
        if c.get("not_applicable"):
            na.append({"property_id": p, "reason": c["not_applicable"]})
            continue
        if not c.get("claimed", True) or not c:
            na.append({"property_id": p, "reason": c.get("reason", "no check built")})
            continue
        checks.append({
            "property_id": p,
            "quick_cmd": "./check %s --tier quick" % p,
            "thorough_cmd": "./check %s --tier thorough" % p,
            "evidence_file": "/verif/evidence/%s.json" % p,
            "replay_cmd_template": "./check %s --replay {path}" % p,
            "engine": "contracts",
            "level_claimed": {"category": c.get("level", "proof"), "text": c["level_text"], "design_ref": c.get("design_ref", "DESIGN.md §4 " + p)},
            "level_note": c["level_note"],
            "technique": c.get("technique", "contract-based deductive verification of the real code (Verus on verbatim-extracted functions; Kani function-contract / full-domain harnesses on the real crate)"),
        })
    m = {
        "version": 1,
        "setup_cmd": "python3 lib/selfcheck.py",
        "hooks": {
            "guard": "cfg(kani)",
            "enable": "checks copy /repo's working tree to a scratch directory and inject #[cfg(kani)] child modules and #[cfg_attr(kani, kani::requires/ensures)] attribute lines there (add-only); cargo kani sets cfg(kani). Nothing in /repo carries a hook.",
            "baseline_off_cmd": "cd /repo && cargo test --workspace --no-fail-fast --offline",
            "source_commits": [],
            "add_only": True,
        },
        "engines": [{
            "name": "contracts", "path": "/verif/check",
            "serves_properties": [c["property_id"] for c in checks],
            "kind_free_text": "contract-based deductive verification: lane V = Verus/Z3 on function text extracted verbatim from /repo/src on every run with requires/ensures/invariant clauses spliced in; lane K = Kani/CBMC on a scratch copy of the real crate with injected #[cfg(kani)] contract harness modules",
        }],
        "checks": checks,
        "not_applicable": na,
        "notes": "exit 0 = all obligations of the tier discharged; exit 1 + VIOLATION line = an obligation failed (replay file holds the Kani concrete-playback test or, with no-failing-input-found, the verifier output); exit 2 = undecided (timeout / lost anchor / unsupported construct). known_findings.toml lists genuine defects (fixed: entries suppress nothing).",
    }
    with open(os.path.join(HERE, "MANIFEST.json"), "w") as f:
        json.dump(m, f, indent=1)
    print("MANIFEST.json: %d checks, %d not applicable" % (len(checks), len(na)))


if __name__ == "__main__":
    main()
