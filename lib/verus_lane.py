"""Lane V: extract real function text from /repo, splice contracts, verify with Verus.

A unit is a directory contracts/verus/<unit>/ holding
  unit.toml   items to extract (by name) and the clause texts to splice
  prelude.rs  spec functions, proof lemmas, external stubs (assumptions)
The assembled file is  use vstd::prelude::*; verus!{ <prelude> <modules of extracted items> } fn main(){}
"""
import json
import os
import re
import subprocess
import time
import tomllib

from extract import Source, ExtractError, splice_fn

VERIF = os.path.dirname(os.path.dirname(os.path.abspath(__file__)))
UNITS = os.path.join(VERIF, "contracts", "verus")


class Unit:
    def __init__(self, name):
        self.name = name
        self.dir = os.path.join(UNITS, name)
        with open(os.path.join(self.dir, "unit.toml"), "rb") as f:
            self.spec = tomllib.load(f)

    def assemble(self, repo, mutate=None):
        """Returns (text, meta). meta lists extracted items with file:line spans and what was dropped."""
        srcs = {}
        meta = {"items": [], "assumptions": [], "dropped": []}
        mods = {}
        order = []
        for it in self.spec.get("item", []):
            path = os.path.join(repo, it.get("file", "src/lib.rs"))
            if path not in srcs:
                if not os.path.exists(path):
                    raise ExtractError("source file %s missing" % it["file"])
                srcs[path] = Source(path)
            s = srcs[path]
            kind = it["kind"]
            module = it.get("module", "")
            if module not in mods:
                mods[module] = []
                order.append(module)
            if kind == "raw":
                # contract-side text (spec/proof only, e.g. `broadcast use`) placed inside a module next to extracted items
                mods[module].append(it["text"])
                continue
            if kind == "fn":
                contract = it.get("contract", "")
                loops = it.get("loops", {})
                text, m = splice_fn(s, it["name"], it.get("impl"), contract, loops, ret_name=it.get("ret_name"), iter_names=it.get("loop_iter"))
                if it.get("loop_iter"):
                    note = "for-loop ghost iterator named in the loop header: `for x in e` written as `for x in it: e` (Verus annotation syntax, header only)"
                    if note not in meta["dropped"]:
                        meta["dropped"].append(note)
                if it.get("ret_name"):
                    note = "return value named in the signature: `-> T` written as `-> (%s: T)` (signature only, body untouched)" % it["ret_name"]
                    if note not in meta["dropped"]:
                        meta["dropped"].append(note)
                if it.get("strip_pub"):
                    text = re.sub(r"^pub\s+", "", text)
                    note = "`pub` dropped from the fn signature (Verus requires a public fn's ensures to mention only public fields)"
                    if note not in meta["dropped"]:
                        meta["dropped"].append(note)
                pre = it.get("pre_attr")
                if pre:
                    text = pre + "\n" + text
                    note = "verifier attribute placed on the fn item: %s" % pre
                    if note not in meta["dropped"]:
                        meta["dropped"].append(note)
                wrap = it.get("impl_as")
                if wrap:
                    text = wrap + " {\n" + text + "\n}"
                    if it.get("impl") and " for " in it["impl"]:
                        meta["dropped"].append("impl header `impl %s` rewritten to `%s` (body untouched)" % (it["impl"], wrap))
                mods[module].append(text)
                meta["items"].append({"kind": "fn", "name": (it.get("impl", "") + "::" if it.get("impl") else "") + it["name"],
                                      "file": it["file"], "lines": list(m["lines"]), "loops": m["n_loops"],
                                      "under_contract": bool(contract.strip())})
            else:
                r = s.find_item(kind, it["name"])
                text = r["text"]
                if it.get("replace_rhs") is not None:
                    # used only for consts whose right-hand side is a path into another module
                    raise ExtractError("replace_rhs not supported")
                pre = it.get("pre_attr")
                if pre:
                    text = pre + "\n" + text
                if kind == "trait" and it.get("method_specs"):
                    for mname, spec in it["method_specs"].items():
                        # splice spec text before the `;` that ends the method declaration
                        pat = re.compile(r"(fn\s+" + re.escape(mname) + r"\s*\([^;{]*\)(\s*->\s*[^;{]+)?)\s*;")
                        mm = pat.search(text)
                        if not mm:
                            raise ExtractError("trait %s: method %s declaration not found" % (it["name"], mname))
                        text = text[:mm.end(1)] + "\n" + spec.strip() + "\n;" + text[mm.end():]
                mods[module].append(text)
                meta["items"].append({"kind": kind, "name": it["name"], "file": it["file"],
                                      "lines": [r["start_line"], r["end_line"]]})
        prelude = ""
        for sh in self.spec.get("unit", {}).get("shared", []):
            with open(os.path.join(UNITS, "_shared", sh)) as f:
                prelude += f.read() + "\n"
        pp = os.path.join(self.dir, self.spec.get("unit", {}).get("prelude", "prelude.rs"))
        if os.path.exists(pp):
            with open(pp) as f:
                prelude += f.read()
        for m in re.finditer(r"(external_body|assume_specification|broadcast axiom fn|admit\(\)|assume\()", prelude):
            line = prelude.count("\n", 0, m.start()) + 1
            ctx = prelude[m.start():prelude.find("\n", prelude.find("fn ", m.start()))].strip()
            meta["assumptions"].append("%s prelude.rs:%d %s" % (self.name, line, re.sub(r"\s+", " ", ctx)[:160]))
        body = []
        for module in order:
            if module == "":
                body.extend(mods[module])
            else:
                body.append("pub mod %s {\n#[allow(unused_imports)] use super::*;\n%s\n}\n#[allow(unused_imports)] use %s::*;" %
                            (module, "\n\n".join(mods[module]), module))
        text = ("#![feature(allocator_api, sized_hierarchy)]\n#![allow(unused_imports, unused_variables, dead_code, unused_mut, unused_assignments, non_snake_case)]\n"
                "use vstd::prelude::*;\nverus! {\n" + prelude + "\n\n" + "\n\n".join(body) + "\n} // verus!\nfn main() {}\n")
        if mutate:
            text = mutate(text)
        return text, meta


def run_verus(path, timeout=300, extra=None):
    cmd = ["verus", path, "--output-json", "--time", "--multiple-errors", "20"] + (extra or [])
    t0 = time.time()
    try:
        p = subprocess.run(cmd, capture_output=True, text=True, timeout=timeout, cwd=os.path.dirname(path))
    except subprocess.TimeoutExpired:
        return {"status": "UNDECIDED", "reason": "timeout %ds" % timeout, "wall_s": time.time() - t0, "cmd": " ".join(cmd)}
    wall = time.time() - t0
    out, err = p.stdout, p.stderr
    res = {"wall_s": wall, "cmd": " ".join(cmd), "stderr": err[-20000:], "returncode": p.returncode}
    js = None
    try:
        # stdout holds one JSON document
        start = out.find("{")
        js = json.loads(out[start:]) if start >= 0 else None
    except Exception:
        js = None
    res["json"] = js
    vr = (js or {}).get("verification-results", {})
    res["verified"] = vr.get("verified")
    res["errors"] = vr.get("errors")
    times = (js or {}).get("times-ms", {})
    res["smt_ms"] = (times.get("smt", {}) or {}).get("total") if isinstance(times.get("smt"), dict) else None
    res["total_ms"] = times.get("total")
    if js is None or "verification-results" not in (js or {}):
        # rustc-level failure (syntax / type / unsupported construct): not a proof failure
        res["status"] = "UNDECIDED"
        m = re.search(r"error[^\n]*\n(?:[^\n]*\n){0,6}", err)
        res["reason"] = "verus did not reach verification (compile/unsupported): " + (m.group(0).strip()[:600] if m else err[-600:])
        return res
    funcs = []
    for mt in ((js.get("times-ms", {}).get("smt", {}) or {}).get("smt-run-module-times", []) or []):
        for fb in mt.get("function-breakdown", []) or []:
            funcs.append({"function": fb.get("function"), "ok": fb.get("success"), "ms": fb.get("time"), "rlimit": fb.get("rlimit")})
    res["functions"] = funcs
    if re.search(r"^error\[E\d+\]", err, flags=re.M):
        res["status"] = "UNDECIDED"
        m = re.search(r"^error\[E\d+\][^\n]*\n(?:[^\n]*\n){0,6}", err, flags=re.M)
        res["reason"] = "rustc error in the assembled unit (renamed/lost item or unsupported construct), not a proof failure: " + m.group(0).strip()[:600]
        return res
    if vr.get("encountered-vir-error"):
        res["status"] = "UNDECIDED"
        m = re.search(r"error[^\n]*\n(?:[^\n]*\n){0,6}", err)
        res["reason"] = "verus front-end error: " + (m.group(0).strip()[:600] if m else err[-600:])
        return res
    if vr.get("errors", 1) == 0 and vr.get("success", False):
        res["status"] = "PASS"
    else:
        heads = re.findall(r"^error: ([^\n]+)\n\s*--> ([^\n]+)", err, flags=re.M)
        kinds = [h[0] for h in heads]
        proofish = [k for k in kinds if re.search(r"postcondition|precondition|assert|invariant|overflow|underflow|index|bounds|decreases|arithmetic|possible|recommend|division|shift|loop", k)]
        if kinds and not proofish and not any(f["ok"] is False for f in funcs):
            res["status"] = "UNDECIDED"
            res["reason"] = "verus error that is not a proof failure: " + "; ".join(kinds)[:600]
        elif re.search(r"Resource limit \(rlimit\) exceeded", err) and not proofish:
            res["status"] = "UNDECIDED"
            res["reason"] = "rlimit exceeded"
        else:
            res["status"] = "FAIL"
            res["failed"] = ["%s @ %s" % (a, b.strip()) for a, b in heads][:20]
            res["failed_functions"] = [f["function"] for f in funcs if f["ok"] is False]
    return res
