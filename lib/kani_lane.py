"""Lane K: the real crate, compiled by Kani, with add-only injection.

scratch copy of /repo's working tree (src/, Cargo.toml, Cargo.lock)
  + one `#[cfg(kani)] #[path = "verif_<file>.rs"] mod verif_kani;` line appended to each source file
    that has a harness module in contracts/kani/
  + `#[cfg_attr(kani, kani::requires(..))]` lines inserted directly above named fn items (attrs.toml)
No existing line is rewritten.
"""
import json
import os
import re
import shutil
import subprocess
import time
import tomllib

VERIF = os.path.dirname(os.path.dirname(os.path.abspath(__file__)))
KDIR = os.environ.get("VERIF_KDIR", os.path.join(VERIF, "contracts", "kani"))
SCRATCH_ROOT = os.environ.get("VERIF_SCRATCH", "/var/tmp")

OB_RE = re.compile(r"^\s*//\s*@ob\s+(.*)$")
KV_RE = re.compile(r'(\w+)=("([^"]*)"|\S+)')


def parse_registry():
    """Scan contracts/kani/verif_*.rs for `// @ob key=value ...` lines directly followed (after attributes)
    by `fn NAME`.  Returns list of dicts."""
    obs = []
    for fn in sorted(os.listdir(KDIR)):
        if not (fn.startswith("verif_") and fn.endswith(".rs")):
            continue
        target = fn[len("verif_"):-3]
        lines = open(os.path.join(KDIR, fn)).read().split("\n")
        i = 0
        while i < len(lines):
            m = OB_RE.match(lines[i])
            if m:
                text = m.group(1)
                j = i + 1
                while j < len(lines) and OB_RE.match(lines[j]) is None and re.match(r"^\s*//\s*@\+\s*(.*)$", lines[j]):
                    text += " " + re.match(r"^\s*//\s*@\+\s*(.*)$", lines[j]).group(1)
                    j += 1
                d = {}
                for k, v, q in KV_RE.findall(text):
                    d[k] = q if v.startswith('"') else v
                unwind = None
                stubs = []
                while j < len(lines):
                    mm = re.match(r"\s*(pub\s+)?fn\s+(\w+)", lines[j])
                    if mm:
                        d["harness"] = mm.group(2)
                        break
                    mu = re.search(r"kani::unwind\((\d+)\)", lines[j])
                    if mu:
                        unwind = int(mu.group(1))
                    ms = re.search(r"kani::stub(_verified)?\(([^)]*)\)", lines[j])
                    if ms:
                        stubs.append(ms.group(0))
                    j += 1
                d["module_file"] = fn
                d["target"] = target
                d["unwind"] = unwind
                d["stubs"] = stubs
                d["props"] = d.get("props", "").split(",")
                d["tier"] = d.get("tier", "quick")
                d["timeout"] = int(d.get("timeout", "300"))
                d["kind"] = d.get("kind", "complete")
                d["line"] = i + 1
                obs.append(d)
                i = j
            i += 1
    return obs


def make_scratch(repo, tag):
    d = os.path.join(SCRATCH_ROOT, "raqote-verif.%s.%d" % (tag, os.getpid()))
    if os.path.exists(d):
        shutil.rmtree(d)
    os.makedirs(d)
    shutil.copytree(os.path.join(repo, "src"), os.path.join(d, "src"))
    for f in ("Cargo.toml", "Cargo.lock"):
        shutil.copy(os.path.join(repo, f), os.path.join(d, f))
    os.makedirs(os.path.join(d, ".cargo"))
    with open(os.path.join(d, ".cargo", "config.toml"), "w") as f:
        f.write("[net]\noffline = true\n")
    return d


def inject(scratch, extra_tests=None):
    """Append module lines and copy harness modules; insert contract attributes.  Returns injection report."""
    report = {"modules": [], "attrs": [], "lost_anchors": []}
    src = os.path.join(scratch, "src")
    for fn in sorted(os.listdir(KDIR)):
        if fn.startswith("verif_") and fn.endswith(".rs"):
            target = fn[len("verif_"):-3] + ".rs"
            tpath = os.path.join(src, target)
            if not os.path.exists(tpath):
                report["lost_anchors"].append("source file src/%s missing" % target)
                continue
            body = open(os.path.join(KDIR, fn)).read()
            if extra_tests and fn in extra_tests:
                body += "\n" + extra_tests[fn]
            with open(os.path.join(src, fn), "w") as f:
                f.write(body)
            with open(tpath, "a") as f:
                f.write("\n#[cfg(kani)]\n#[path = \"%s\"]\npub(crate) mod verif_kani;\n" % fn)
            report["modules"].append("src/%s += mod verif_kani (%s)" % (target, fn))
        elif fn.endswith(".rs") and fn.startswith("common"):
            shutil.copy(os.path.join(KDIR, fn), os.path.join(src, fn))
    ap = os.path.join(KDIR, "attrs.toml")
    if os.path.exists(ap):
        with open(ap, "rb") as f:
            attrs = tomllib.load(f)
        for a in attrs.get("attr", []):
            tpath = os.path.join(src, a["file"])
            lines = open(tpath).read().split("\n")
            pat = re.compile(r"^\s*(pub(\([a-z]+\))?\s+)?fn\s+" + re.escape(a["fn"]) + r"\s*[(<]")
            hits = [i for i, l in enumerate(lines) if pat.match(l)]
            if a.get("nth") is not None:
                hits = hits[a["nth"]:a["nth"] + 1]
            if len(hits) != 1:
                report["lost_anchors"].append("fn %s in src/%s: %d matches" % (a["fn"], a["file"], len(hits)))
                continue
            i = hits[0]
            # keep existing attributes (e.g. #[inline]) directly above the fn; insert above them
            while i > 0 and lines[i - 1].strip().startswith("#["):
                i -= 1
            indent = re.match(r"^\s*", lines[hits[0]]).group(0)
            ins = [indent + "#[cfg_attr(kani, %s)]" % x for x in a["attrs"]]
            lines[i:i] = ins
            with open(tpath, "w") as f:
                f.write("\n".join(lines))
            report["attrs"].append("src/%s fn %s: %d contract attribute lines" % (a["file"], a["fn"], len(ins)))
    return report


def kani_env():
    env = dict(os.environ)
    env["CARGO_NET_OFFLINE"] = "true"
    env.pop("RUSTUP_TOOLCHAIN", None)
    return env


BASE_FLAGS = ["--no-default-features", "-Z", "function-contracts", "-Z", "stubbing", "-Z", "unstable-options"]


def run_harnesses(scratch, harnesses, jobs=16, timeout_each=300, overall_timeout=3600, playback=False, extra_flags=None):
    """Run cargo kani once for the given harness names. Returns dict harness -> result."""
    cmd = ["cargo", "kani"] + BASE_FLAGS + ["--output-format", "terse", "--harness-timeout", "%ds" % timeout_each]
    if extra_flags:
        cmd += extra_flags
    if playback:
        cmd += ["-Z", "concrete-playback", "--concrete-playback=print"]
    else:
        cmd += ["-j", str(jobs)]
    for h in harnesses:
        cmd += ["--harness", h]
    cmd += ["--exact"] if False else []
    t0 = time.time()

    def _limit():
        # keep a runaway CBMC from exhausting the machine: 24 GB of address space per process
        import resource
        lim = int(os.environ.get("VERIF_MEM_GB", "24")) << 30
        resource.setrlimit(resource.RLIMIT_AS, (lim, lim))
    try:
        p = subprocess.run(cmd, cwd=scratch, env=kani_env(), capture_output=True, text=True, timeout=overall_timeout, preexec_fn=_limit)
        out = p.stdout + "\n" + p.stderr
        rc = p.returncode
    except subprocess.TimeoutExpired as e:
        out = (e.stdout or b"").decode("utf-8", "replace") if isinstance(e.stdout, bytes) else (e.stdout or "")
        out += "\n[verif] overall timeout"
        rc = -9
    wall = time.time() - t0
    return parse_output(out, harnesses, rc, wall, " ".join(cmd))


def parse_output(out, harnesses, rc, wall, cmd):
    res = {"_raw": out, "_rc": rc, "_wall": wall, "_cmd": cmd}
    compile_error = None
    if re.search(r"^error(\[E\d+\])?:", out, flags=re.M) and "Checking harness" not in out:
        m = re.search(r"^error(\[E\d+\])?:[^\n]*\n(?:[^\n]*\n){0,8}", out, flags=re.M)
        compile_error = m.group(0) if m else "compile error"
    # split by thread-prefixed or plain blocks
    # Normalise "Thread N: " prefixes
    blocks = {}
    cur = {}
    for line in out.split("\n"):
        m = re.match(r"^(Thread (\d+): )?(.*)$", line)
        tid = m.group(2) or "0"
        rest = m.group(3)
        mc = re.match(r"Checking harness (\S+?)\.\.\.$", rest)
        if mc:
            cur[tid] = mc.group(1)
            blocks.setdefault(cur[tid], [])
            continue
        # terse output with -j prints a multi-line block after "Thread N: "; subsequent lines have no prefix
        if m.group(1):
            last_tid = tid
        key = cur.get(tid)
        if key is None and cur:
            key = list(cur.values())[-1]
        if key:
            blocks[key].append(rest)
    # Under -j the block following "Thread N: " has unprefixed lines; re-parse more robustly:
    blocks = {}
    order = []
    cur_by_thread = {}
    active = None
    for line in out.split("\n"):
        m = re.match(r"^Thread (\d+): ?(.*)$", line)
        if m:
            tid, rest = m.group(1), m.group(2)
            mc = re.match(r"Checking harness (\S+?)\.\.\.$", rest)
            if mc:
                cur_by_thread[tid] = mc.group(1)
                blocks.setdefault(mc.group(1), [])
                active = None
                continue
            active = cur_by_thread.get(tid)
            if active:
                blocks[active].append(rest)
            continue
        mc = re.match(r"^Checking harness (\S+?)\.\.\.$", line)
        if mc:
            active = mc.group(1)
            blocks.setdefault(active, [])
            continue
        if active:
            blocks[active].append(line)
    for h in harnesses:
        full = [k for k in blocks if k == h or k.endswith("::" + h)]
        r = {"harness": h}
        if compile_error:
            r.update(status="UNDECIDED", reason="kani compile error: " + compile_error[:800])
        elif not full:
            r.update(status="UNDECIDED", reason="harness not found in kani output (rc=%s)" % rc)
        else:
            txt = "\n".join(blocks[full[0]])
            r["fullname"] = full[0]
            mt = re.search(r"Verification Time: ([0-9.]+)s", txt)
            r["time_s"] = float(mt.group(1)) if mt else None
            mf = re.search(r"\*\* (\d+) of (\d+) failed", txt)
            r["checks"] = int(mf.group(2)) if mf else 0
            r["failed_checks_n"] = int(mf.group(1)) if mf else None
            mcov = re.search(r"\*\* (\d+) of (\d+) cover properties satisfied", txt)
            r["covers"] = (int(mcov.group(1)), int(mcov.group(2))) if mcov else (0, 0)
            fails = re.findall(r'Failed Checks: ([^\n]*)\n\s*File: "([^"]+)", line (\d+)', txt)
            r["failed_checks"] = ["%s @ %s:%s" % f for f in fails]
            if "VERIFICATION:- SUCCESSFUL" in txt:
                if r["checks"] == 0:
                    r.update(status="UNDECIDED", reason="vacuous: zero checks")
                elif r["covers"][1] == 0 or r["covers"][0] != r["covers"][1]:
                    r.update(status="UNDECIDED", reason="vacuity guard: covers satisfied %s of %s" % r["covers"])
                else:
                    r["status"] = "PASS"
            elif "VERIFICATION:- FAILED" in txt:
                # failures that are only unwinding assertions or unsupported constructs are not property failures
                real = [f for f in r["failed_checks"] if not re.search(r"unwinding assertion|not currently supported|unsupported|reachability", f[0] if isinstance(f, tuple) else f)]
                if re.search(r"CBMC failed|out of memory|timed out|Timeout|SIGKILL|signal", txt) and not real:
                    r.update(status="UNDECIDED", reason="tool failure / timeout")
                elif not real and r["failed_checks"]:
                    r.update(status="UNDECIDED", reason="only unwinding/unsupported failures: " + "; ".join(r["failed_checks"])[:400])
                elif not r["failed_checks"] and (r["failed_checks_n"] in (None, 0)):
                    # failed without failed checks: timeout or crash
                    r.update(status="UNDECIDED", reason="verification did not complete: " + txt[-300:].replace("\n", " "))
                else:
                    r["status"] = "FAIL"
            else:
                r.update(status="UNDECIDED", reason="no verdict (timeout/crash): " + txt[-300:].replace("\n", " "))
            r["text"] = txt[-6000:]
            # playback tests
            tests = re.findall(r"```\n(.*?)```", txt, flags=re.S)
            r["playback_tests"] = tests
        res[h] = r
    return res


def cleanup(scratch):
    shutil.rmtree(scratch, ignore_errors=True)
