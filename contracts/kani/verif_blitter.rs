// Lane K harness module injected as a child of `crate::blitter` (sees private items).
// Every `// @ob` line registers one obligation; see lib/kani_lane.py::parse_registry.
#![allow(unused_imports, dead_code)]
use super::*;
use sw_composite::*;
#[path = "common_uf.rs"]
mod uf;
use uf::*;

pub fn pm(p: u32) -> bool {
    let a = p >> 24;
    ((p >> 16) & 0xff) <= a && ((p >> 8) & 0xff) <= a && (p & 0xff) <= a
}

// ---------------------------------------------------------------- kernels
// @ob id=K.over_in_zero props=C02,C03 kind=complete tier=quick timeout=120 fns=sw_composite::over_in
// @+ desc="over_in(s,d,0)==d for all 64 bits of s,d: zero coverage leaves the pixel bit-identical"
#[kani::proof]
fn k_over_in_zero() {
    let s: u32 = kani::any();
    let d: u32 = kani::any();
    assert!(over_in(s, d, 0) == d, "over_in(s,d,0)==d");
    kani::cover!(true);
}

// @ob id=K.over_in_in_zero props=C02,C03,C05 kind=complete tier=quick timeout=120 fns=sw_composite::over_in_in
// @+ desc="over_in_in(s,d,m,0)==d and over_in_in(s,d,0,c)==d: zero mask or zero clip coverage leaves the pixel"
#[kani::proof]
fn k_over_in_in_zero() {
    let s: u32 = kani::any();
    let d: u32 = kani::any();
    let m: u8 = kani::any();
    let c: u8 = kani::any();
    assert!(over_in_in(s, d, m as u32, 0) == d, "over_in_in(s,d,m,0)==d");
    assert!(over_in_in(s, d, 0, c as u32) == d, "over_in_in(s,d,0,c)==d");
    kani::cover!(true);
}

// @ob id=K.alpha_lerp_zero props=C02,C03,C05 kind=complete tier=quick timeout=120 fns=sw_composite::alpha_lerp
// @+ desc="alpha_lerp(d,b,m,0)==d and alpha_lerp(d,b,0,c)==d for every b"
#[kani::proof]
fn k_alpha_lerp_zero() {
    let b: u32 = kani::any();
    let d: u32 = kani::any();
    let m: u8 = kani::any();
    let c: u8 = kani::any();
    assert!(alpha_lerp(d, b, m as u32, 0) == d, "alpha_lerp(d,b,m,0)==d");
    assert!(alpha_lerp(d, b, 0, c as u32) == d, "alpha_lerp(d,b,0,c)==d");
    kani::cover!(true);
}

// @ob id=K.lerp_full props=C03,C14 kind=complete tier=quick timeout=120 fns=sw_composite::lerp
// @+ desc="lerp(d,b,a256(255))==b: full coverage yields exactly blend(source, previous)"
#[kani::proof]
fn k_lerp_full() {
    let b: u32 = kani::any();
    let d: u32 = kani::any();
    assert!(lerp(d, b, alpha_to_alpha256(255)) == b, "lerp(d,b,256)==b");
    kani::cover!(true);
}

// @ob id=K.over_in_full props=C03,C14 kind=complete tier=quick timeout=120 fns=sw_composite::over_in,sw_composite::over
// @+ desc="over_in(s,d,255)==over(s,d) for premultiplied s,d; over(s,d)==s for opaque s; over_in(0,d,m)==d"
#[kani::proof]
fn k_over_in_full() {
    let s: u32 = kani::any();
    let d: u32 = kani::any();
    let m: u8 = kani::any();
    kani::assume(pm(s) && pm(d));
    assert!(over_in(s, d, 255) == over(s, d), "over_in(s,d,255)==over(s,d)");
    if s >> 24 == 255 {
        assert!(over(s, d) == s, "opaque SrcOver replaces");
        assert!(over_in(s, d, 255) == s, "opaque over_in at 255 replaces");
    }
    assert!(over_in(0, d, m as u32) == d, "transparent source changes nothing");
    kani::cover!(s >> 24 == 255);
    kani::cover!(s >> 24 == 0);
}

// @ob id=K.alpha_lerp_full props=C03 kind=complete tier=quick timeout=120 fns=sw_composite::alpha_lerp
// @+ desc="alpha_lerp(d,b,255,255)==b: full coverage under a fully covering clip path yields exactly blend(source, previous)"
#[kani::proof]
fn k_alpha_lerp_full() {
    let b: u32 = kani::any();
    let d: u32 = kani::any();
    assert!(alpha_lerp(d, b, 255, 255) == b, "alpha_lerp(d,b,255,255)==b");
    kani::cover!(true);
}

// @ob id=K.alpha_lerp_full_residual props=C03 kind=complete tier=quick timeout=120 fns=sw_composite::alpha_lerp residual_of=K.alpha_lerp_full
// @+ desc="residual of the known finding: alpha_lerp(d,b,255,255) is exactly lerp(d,b,255) (weight 255/256 instead of 256/256), nothing worse; and full coverage without a clip path is exact (K.lerp_full)"
#[kani::proof]
fn k_alpha_lerp_full_residual() {
    let b: u32 = kani::any();
    let d: u32 = kani::any();
    assert!(alpha_lerp(d, b, 255, 255) == lerp(d, b, 255), "alpha_lerp(d,b,255,255)==lerp(d,b,255)");
    kani::cover!(true);
}

// ---------------------------------------------------------------- SrcOver span blitters (paired with lane V unit shader_mask_blitter)
// over_in / over_in_in are replaced by arbitrary functions here (as in lane V): the span contract holds for ANY kernel.
pub static mut UF_OVER_IN: Uf = Uf::new();
pub static mut UF_OVER_IN_IN: Uf = Uf::new();
pub fn over_in_uf(src: u32, dst: u32, alpha: u32) -> u32 { unsafe { UF_OVER_IN.call([src, dst, alpha, 0]) } }
pub fn over_in_in_uf(src: u32, dst: u32, mask: u32, clip: u32) -> u32 { unsafe { UF_OVER_IN_IN.call([src, dst, mask, clip]) } }
pub struct AnyShader;
impl Shader for AnyShader {
    fn shade_span(&self, _x: i32, _y: i32, dest: &mut [u32], count: usize) {
        assert!(count <= dest.len(), "shade_span precondition: count <= dest.len()");
        let mut i = 0;
        while i < 3 {
            if i < count { dest[i] = kani::any(); }
            i += 1;
        }
    }
}

// @ob id=K.shader_mask_blitter_span props=C02,C03 kind=bounded:dest=3x2,count<=3 tier=quick timeout=600 fns=ShaderMaskBlitter::blit_span
// @+ desc="bounded twin of the lane-V contract (supplies counterexamples): every word of a 3x2 destination at any origin: inside the span and mask!=0 -> over_in(tmp[i], d, mask[i]); everything else bit-identical"
#[kani::proof]
#[kani::unwind(8)]
#[kani::stub(sw_composite::over_in, over_in_uf)]
fn k_shader_mask_blitter_span() {
    let ox: i32 = kani::any();
    let oy: i32 = kani::any();
    kani::assume(ox >= -100 && ox <= 100 && oy >= -100 && oy <= 100);
    let old: [u32; 6] = kani::any();
    let mut dest = old;
    let mask: [u8; 3] = kani::any();
    let y: i32 = kani::any();
    let x1: i32 = kani::any();
    let x2: i32 = kani::any();
    kani::assume(y >= oy && y < oy + 2 && x1 >= ox && x1 <= x2 && x2 <= ox + 3);
    let count = (x2 - x1) as usize;
    let shader = AnyShader;
    let mut b = ShaderMaskBlitter { x: ox, y: oy, shader: &shader, tmp: vec![0; 3], dest: &mut dest[..], dest_stride: 3 };
    b.blit_span(y, x1, x2, &mask[..count]);
    let tmp = [b.tmp[0], b.tmp[1], b.tmp[2]];
    let base = ((y - oy) * 3 + x1 - ox) as usize;
    let mut k = 0;
    while k < 6 {
        if k >= base && k < base + count && mask[k - base] != 0 {
            assert!(dest[k] == over_in(tmp[k - base], old[k], mask[k - base] as u32), "covered pixel = over_in(source, previous, coverage)");
        } else {
            assert!(dest[k] == old[k], "pixel outside the span or with zero coverage is bit-identical");
        }
        k += 1;
    }
    kani::cover!(count == 3 && y == oy + 1);
    kani::cover!(count == 2 && mask[0] == 0);
}

// @ob id=K.shader_clip_mask_blitter_span props=C02,C03,C05 kind=bounded:dest=3x2,count<=3 tier=quick timeout=600 fns=ShaderClipMaskBlitter::blit_span
// @+ desc="bounded twin of the lane-V contract: destination is a 2x2 layer at a symbolic origin inside a 3x2 surface; clip mask indexed at absolute device coordinates; covered and clip!=0 -> over_in_in(tmp[i], d, mask[i], clip[y*3+x]); everything else bit-identical"
#[kani::proof]
#[kani::unwind(8)]
#[kani::stub(sw_composite::over_in_in, over_in_in_uf)]
fn k_shader_clip_mask_blitter_span() {
    let ox: i32 = kani::any();
    let oy: i32 = 0;
    kani::assume(ox >= 0 && ox <= 1);
    let old: [u32; 4] = kani::any();
    let mut dest = old;
    let mask: [u8; 2] = kani::any();
    let clip: [u8; 7] = kani::any();
    let y: i32 = kani::any();
    let x1: i32 = kani::any();
    let x2: i32 = kani::any();
    kani::assume(y >= oy && y < oy + 2 && x1 >= ox && x1 <= x2 && x2 <= ox + 2);
    let count = (x2 - x1) as usize;
    let shader = AnyShader;
    let mut b = ShaderClipMaskBlitter { x: ox, y: oy, shader: &shader, tmp: vec![0; 3], dest: &mut dest[..], dest_stride: 2, clip: &clip[..], clip_stride: 3 };
    b.blit_span(y, x1, x2, &mask[..count]);
    let tmp = [b.tmp[0], b.tmp[1], b.tmp[2]];
    let base = ((y - oy) * 2 + x1 - ox) as usize;
    let mut k = 0;
    while k < 4 {
        if k >= base && k < base + count && mask[k - base] != 0 && clip[(y * 3 + x1) as usize + (k - base)] != 0 {
            assert!(dest[k] == over_in_in(tmp[k - base], old[k], mask[k - base] as u32, clip[(y * 3 + x1) as usize + (k - base)] as u32), "covered pixel = over_in_in(source, previous, coverage, clip coverage at the device position)");
        } else {
            assert!(dest[k] == old[k], "pixel outside the span, with zero coverage or zero clip coverage is bit-identical");
        }
        k += 1;
    }
    kani::cover!(count == 2 && ox == 1 && y == 1);
}

// ---------------------------------------------------------------- sources (C03 #5, C07 #9, C18 #3)
// @ob id=K.choose_shader_solid props=C03,C07,C18 kind=bounded:count<=3 tier=quick timeout=600 fns=choose_shader,SolidShader::shade_span
// @+ desc="choose_shader, solid source, EVERY f32 global alpha (NaN, negative, > 1, infinite included) and every colour: never panics; the span colour is alpha_mul(c, a256(A)) with A = round(alpha*255) for alpha in [0,1], A = 0 for NaN/negative, A = 255 for alpha >= 1; premultiplied colours stay premultiplied; shade_span writes exactly `count` entries"
#[kani::proof]
#[kani::unwind(5)]
fn k_choose_shader_solid() {
    let alpha: f32 = kani::any();
    let c = crate::SolidSource { r: kani::any(), g: kani::any(), b: kani::any(), a: kani::any() };
    let src = Source::Solid(c);
    let ti = Transform::identity();
    let mut storage = ShaderStorage::None;
    let shader = choose_shader(&ti, &src, alpha, &mut storage);
    let mut dest = [0x12345678u32; 4];
    let count: usize = kani::any();
    kani::assume(count <= 3);
    shader.shade_span(kani::any(), kani::any(), &mut dest[..], count);
    let a_byte: u32 = if alpha.is_nan() || alpha <= 0. { 0 } else if alpha >= 1. { 255 } else { (alpha * 255. + 0.5) as u32 };
    if alpha >= 0. && alpha <= 1. { assert!((a_byte as f32 - alpha * 255.).abs() <= 0.5, "alpha byte = round(alpha*255)"); }
    let color = alpha_mul(c.to_u32(), alpha_to_alpha256(a_byte));
    let mut i = 0;
    while i < 4 {
        if i < count { assert!(dest[i] == color, "span colour = source colour scaled by the global alpha"); }
        else { assert!(dest[i] == 0x12345678, "shade_span writes exactly count entries"); }
        i += 1;
    }
    if pm(c.to_u32()) { assert!(pm(color), "premultiplied stays premultiplied"); }
    if a_byte == 0 { assert!(color >> 24 == 0, "zero global alpha gives a transparent source"); }
    if a_byte == 255 { assert!(color == c.to_u32(), "alpha 1 leaves the colour unchanged"); }
    kani::cover!(alpha == 0.5 && count == 3);
    kani::cover!(alpha > 1.);
    kani::cover!(alpha.is_nan());
}

// ---------------------------------------------------------------- coverage accumulation (C01 #7, #8)
// @ob id=K.saturated_add props=C01,C07 kind=complete tier=quick timeout=120 fns=saturated_add,coverage_to_partial_alpha
// @+ desc="saturated_add(a,b) == min(a+b,255) for every a,b with a+b <= 256 (the caller's guarantee); coverage_to_partial_alpha(c) == 16*c for 0 <= c <= 15, no overflow"
#[kani::proof]
fn k_saturated_add() {
    let a: u8 = kani::any();
    let b: u8 = kani::any();
    kani::assume(a as u32 + b as u32 <= 256);
    let s = a as u32 + b as u32;
    assert!(saturated_add(a, b) as u32 == if s > 255 { 255 } else { s }, "saturated_add = min(a+b,255)");
    let c: i32 = kani::any();
    kani::assume(c >= 0 && c <= 15);
    assert!(coverage_to_partial_alpha(c) as i32 == 16 * c, "partial alpha = cells << 4");
    kani::cover!(s == 256);
}

fn cells(k: i32, x1: i32, x2: i32) -> i32 {
    let lo = x1.max(4 * k);
    let hi = x2.min(4 * k + 4);
    if hi > lo { hi - lo } else { 0 }
}

// @ob id=K.mask_super_blit_span props=C01,C07 kind=bounded:width<=4,rows=2 tier=quick timeout=900 fns=MaskSuperBlitter::blit_span
// @+ desc="MaskSuperBlitter::blit_span on a w x 2 mask (w symbolic <= 4, symbolic origin, symbolic contents): with row=(y-self.y)/4, sub=(y-self.y)&3, x2'=min(x2,4w): every byte of the whole buffer (slack byte included) becomes old + acc where acc = 16*cells for the first and last touched pixel, 64-(sub==3) for pixels strictly between, 0 elsewhere (cells = quarter-pixel cells of that pixel inside [x1,x2')), saturating at 255 when the sum is 256; no index out of bounds (only the one slack byte past the end may be addressed), no u8 overflow under the caller's guarantee that a pixel never accumulates more than 256"
#[kani::proof]
#[kani::unwind(11)]
fn k_mask_super_blit_span() {
    let w: i32 = kani::any();
    kani::assume(w >= 0 && w <= 4);
    let ox: i32 = kani::any();
    let oy: i32 = kani::any();
    kani::assume(ox >= -50 && ox <= 50 && oy >= -50 && oy <= 50);
    let old: [u8; 9] = kani::any();
    let n = (w * 2) as usize + 1;
    let mut b = MaskSuperBlitter { x: ox * 4, y: oy * 4, width: w, buf: old[..n].to_vec() };
    let y: i32 = kani::any();
    let x1: i32 = kani::any();
    let x2: i32 = kani::any();
    kani::assume(y >= oy * 4 && y < oy * 4 + 8);
    kani::assume(x1 >= ox * 4 && x1 <= x2 && x2 <= 1000 && x1 - ox * 4 <= 4 * w);
    let yl = y - oy * 4;
    let (row, sub) = (yl / 4, yl & 3);
    let x1l = x1 - ox * 4;
    let x2c = (x2 - ox * 4).min(4 * w);
    let (p1, p2) = (x1l >> 2, x2c >> 2);
    // caller's guarantee: no pixel accumulates past 256 (255 for interior pixels which are added without saturation)
    let mut k = 0;
    while k < 5 {
        if k <= w {
            let idx = (row * w + k) as usize;
            if idx < n {
                let c = cells(k, x1l, x2c);
                let acc = if k == p1 || k == p2 { 16 * c } else if c > 0 { 64 - (sub == 3) as i32 } else { 0 };
                kani::assume(old[idx] as i32 + acc <= if k == p1 || k == p2 { 256 } else { 255 });
            }
        }
        k += 1;
    }
    b.blit_span(y, x1, x2);
    assert!(b.buf.len() == n && b.width == w && b.x == ox * 4 && b.y == oy * 4, "frame");
    let mut i = 0;
    while i < 9 {
        if i < n {
            let r = if w > 0 { i as i32 / w } else { 0 };
            let kx = i as i32 - row * w; // column relative to the touched row (w = one past the end = slack/next row start)
            let mut exp = old[i] as i32;
            if kx >= 0 && kx <= w && (w > 0 || i == 0) {
                let c = cells(kx, x1l, x2c);
                let acc = if kx == p1 || kx == p2 { 16 * c } else if c > 0 { 64 - (sub == 3) as i32 } else { 0 };
                exp = (old[i] as i32 + acc).min(255);
            }
            let _ = r;
            assert!(b.buf[i] as i32 == exp, "coverage byte = old + acc(sub-row, cells)");
        }
        i += 1;
    }
    kani::cover!(w == 4 && p2 - p1 == 3 && sub == 3);
    kani::cover!(w == 3 && p1 == p2 && x2c > x1l);
    kani::cover!(x2 - ox * 4 > 4 * w);
}

// ---------------------------------------------------------------- helper for K.push_clip_driver_* (stub of MaskSuperBlitter::new)
pub static mut COV: [u8; 7] = [0; 7];
pub fn super_blitter_sym(x: i32, y: i32, width: i32, height: i32) -> MaskSuperBlitter {
    let mut buf = vec![0u8; (width * height) as usize + 1];
    let mut i = 0;
    while i < 7 { if i < buf.len() { buf[i] = unsafe { COV[i] }; } i += 1; }
    MaskSuperBlitter { x: x * SCALE, y: y * SCALE, width, buf }
}
