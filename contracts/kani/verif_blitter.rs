// Lane K harness module injected as a child of `crate::blitter` (sees private items).
// Every `// @ob` line registers one obligation; see lib/kani_lane.py::parse_registry.
#![allow(unused_imports, dead_code)]
use super::*;
use sw_composite::*;

pub fn pm(p: u32) -> bool {
    let a = p >> 24;
    ((p >> 16) & 0xff) <= a && ((p >> 8) & 0xff) <= a && (p & 0xff) <= a
}

// ---------------------------------------------------------------- kernels
// @ob id=K.over_in_zero props=C02,C03 kind=complete tier=quick timeout=120 fns=sw_composite::over_in
// @+ desc="over_in(s,d,0)==d for all 64 bits of s,d: zero coverage leaves the pixel bit-identical"
#[kani::proof]
fn k_over_in_zero() {
    let s: u32 = kani::any();
    let d: u32 = kani::any();
    assert!(over_in(s, d, 0) == d, "over_in(s,d,0)==d");
    kani::cover!(true);
}

// @ob id=K.over_in_in_zero props=C02,C03,C05 kind=complete tier=quick timeout=120 fns=sw_composite::over_in_in
// @+ desc="over_in_in(s,d,m,0)==d and over_in_in(s,d,0,c)==d: zero mask or zero clip coverage leaves the pixel"
#[kani::proof]
fn k_over_in_in_zero() {
    let s: u32 = kani::any();
    let d: u32 = kani::any();
    let m: u8 = kani::any();
    let c: u8 = kani::any();
    assert!(over_in_in(s, d, m as u32, 0) == d, "over_in_in(s,d,m,0)==d");
    assert!(over_in_in(s, d, 0, c as u32) == d, "over_in_in(s,d,0,c)==d");
    kani::cover!(true);
}

// @ob id=K.alpha_lerp_zero props=C02,C03,C05 kind=complete tier=quick timeout=120 fns=sw_composite::alpha_lerp
// @+ desc="alpha_lerp(d,b,m,0)==d and alpha_lerp(d,b,0,c)==d for every b"
#[kani::proof]
fn k_alpha_lerp_zero() {
    let b: u32 = kani::any();
    let d: u32 = kani::any();
    let m: u8 = kani::any();
    let c: u8 = kani::any();
    assert!(alpha_lerp(d, b, m as u32, 0) == d, "alpha_lerp(d,b,m,0)==d");
    assert!(alpha_lerp(d, b, 0, c as u32) == d, "alpha_lerp(d,b,0,c)==d");
    kani::cover!(true);
}

// @ob id=K.lerp_full props=C03,C14 kind=complete tier=quick timeout=120 fns=sw_composite::lerp
// @+ desc="lerp(d,b,a256(255))==b: full coverage yields exactly blend(source, previous)"
#[kani::proof]
fn k_lerp_full() {
    let b: u32 = kani::any();
    let d: u32 = kani::any();
    assert!(lerp(d, b, alpha_to_alpha256(255)) == b, "lerp(d,b,256)==b");
    kani::cover!(true);
}

// @ob id=K.over_in_full props=C03,C14 kind=complete tier=quick timeout=120 fns=sw_composite::over_in,sw_composite::over
// @+ desc="over_in(s,d,255)==over(s,d) for premultiplied s,d; over(s,d)==s for opaque s; over_in(0,d,m)==d"
#[kani::proof]
fn k_over_in_full() {
    let s: u32 = kani::any();
    let d: u32 = kani::any();
    let m: u8 = kani::any();
    kani::assume(pm(s) && pm(d));
    assert!(over_in(s, d, 255) == over(s, d), "over_in(s,d,255)==over(s,d)");
    if s >> 24 == 255 {
        assert!(over(s, d) == s, "opaque SrcOver replaces");
        assert!(over_in(s, d, 255) == s, "opaque over_in at 255 replaces");
    }
    assert!(over_in(0, d, m as u32) == d, "transparent source changes nothing");
    kani::cover!(s >> 24 == 255);
    kani::cover!(s >> 24 == 0);
}

// @ob id=K.alpha_lerp_full props=C03 kind=complete tier=quick timeout=120 fns=sw_composite::alpha_lerp
// @+ desc="alpha_lerp(d,b,255,255)==b: full coverage under a fully covering clip path yields exactly blend(source, previous)"
#[kani::proof]
fn k_alpha_lerp_full() {
    let b: u32 = kani::any();
    let d: u32 = kani::any();
    assert!(alpha_lerp(d, b, 255, 255) == b, "alpha_lerp(d,b,255,255)==b");
    kani::cover!(true);
}

// @ob id=K.alpha_lerp_full_residual props=C03 kind=complete tier=quick timeout=120 fns=sw_composite::alpha_lerp residual_of=K.alpha_lerp_full
// @+ desc="residual of the known finding: alpha_lerp(d,b,255,255) is exactly lerp(d,b,255) (weight 255/256 instead of 256/256), nothing worse; and full coverage without a clip path is exact (K.lerp_full)"
#[kani::proof]
fn k_alpha_lerp_full_residual() {
    let b: u32 = kani::any();
    let d: u32 = kani::any();
    assert!(alpha_lerp(d, b, 255, 255) == lerp(d, b, 255), "alpha_lerp(d,b,255,255)==lerp(d,b,255)");
    kani::cover!(true);
}
