// Lane K harness module injected as a child of `crate::blitter` (sees private items).
// Every `// @ob` line registers one obligation; see lib/kani_lane.py::parse_registry.
#![allow(unused_imports, dead_code)]
use super::*;
use sw_composite::*;
#[path = "common_uf.rs"]
mod uf;
use uf::*;

pub fn pm(p: u32) -> bool {
    let a = p >> 24;
    ((p >> 16) & 0xff) <= a && ((p >> 8) & 0xff) <= a && (p & 0xff) <= a
}

// ---------------------------------------------------------------- kernels
// @ob id=K.over_in_zero props=C02,C03 kind=complete tier=quick timeout=120 fns=sw_composite::over_in
// @+ desc="over_in(s,d,0)==d for all 64 bits of s,d: zero coverage leaves the pixel bit-identical"
#[kani::proof]
fn k_over_in_zero() {
    let s: u32 = kani::any();
    let d: u32 = kani::any();
    assert!(over_in(s, d, 0) == d, "over_in(s,d,0)==d");
    kani::cover!(true);
}

// @ob id=K.over_in_in_zero props=C02,C03,C05 kind=complete tier=quick timeout=120 fns=sw_composite::over_in_in
// @+ desc="over_in_in(s,d,m,0)==d and over_in_in(s,d,0,c)==d: zero mask or zero clip coverage leaves the pixel"
#[kani::proof]
fn k_over_in_in_zero() {
    let s: u32 = kani::any();
    let d: u32 = kani::any();
    let m: u8 = kani::any();
    let c: u8 = kani::any();
    assert!(over_in_in(s, d, m as u32, 0) == d, "over_in_in(s,d,m,0)==d");
    assert!(over_in_in(s, d, 0, c as u32) == d, "over_in_in(s,d,0,c)==d");
    kani::cover!(true);
}

// @ob id=K.alpha_lerp_zero props=C02,C03,C05 kind=complete tier=quick timeout=120 fns=sw_composite::alpha_lerp
// @+ desc="alpha_lerp(d,b,m,0)==d and alpha_lerp(d,b,0,c)==d for every b"
#[kani::proof]
fn k_alpha_lerp_zero() {
    let b: u32 = kani::any();
    let d: u32 = kani::any();
    let m: u8 = kani::any();
    let c: u8 = kani::any();
    assert!(alpha_lerp(d, b, m as u32, 0) == d, "alpha_lerp(d,b,m,0)==d");
    assert!(alpha_lerp(d, b, 0, c as u32) == d, "alpha_lerp(d,b,0,c)==d");
    kani::cover!(true);
}

// @ob id=K.lerp_full props=C03,C14 kind=complete tier=quick timeout=120 fns=sw_composite::lerp
// @+ desc="lerp(d,b,a256(255))==b: full coverage yields exactly blend(source, previous)"
#[kani::proof]
fn k_lerp_full() {
    let b: u32 = kani::any();
    let d: u32 = kani::any();
    assert!(lerp(d, b, alpha_to_alpha256(255)) == b, "lerp(d,b,256)==b");
    kani::cover!(true);
}

// @ob id=K.over_in_full props=C03,C14 kind=complete tier=quick timeout=120 fns=sw_composite::over_in,sw_composite::over
// @+ desc="over_in(s,d,255)==over(s,d) for premultiplied s,d; over(s,d)==s for opaque s; over_in(0,d,m)==d"
#[kani::proof]
fn k_over_in_full() {
    let s: u32 = kani::any();
    let d: u32 = kani::any();
    let m: u8 = kani::any();
    kani::assume(pm(s) && pm(d));
    assert!(over_in(s, d, 255) == over(s, d), "over_in(s,d,255)==over(s,d)");
    if s >> 24 == 255 {
        assert!(over(s, d) == s, "opaque SrcOver replaces");
        assert!(over_in(s, d, 255) == s, "opaque over_in at 255 replaces");
    }
    assert!(over_in(0, d, m as u32) == d, "transparent source changes nothing");
    kani::cover!(s >> 24 == 255);
    kani::cover!(s >> 24 == 0);
}

// @ob id=K.alpha_lerp_full props=C03 kind=complete tier=quick timeout=120 fns=sw_composite::alpha_lerp
// @+ desc="alpha_lerp(d,b,255,255)==b: full coverage under a fully covering clip path yields exactly blend(source, previous)"
#[kani::proof]
fn k_alpha_lerp_full() {
    let b: u32 = kani::any();
    let d: u32 = kani::any();
    assert!(alpha_lerp(d, b, 255, 255) == b, "alpha_lerp(d,b,255,255)==b");
    kani::cover!(true);
}

// @ob id=K.alpha_lerp_full_residual props=C03 kind=complete tier=quick timeout=120 fns=sw_composite::alpha_lerp residual_of=K.alpha_lerp_full
// @+ desc="residual of the known finding: alpha_lerp(d,b,255,255) is exactly lerp(d,b,255) (weight 255/256 instead of 256/256), nothing worse; and full coverage without a clip path is exact (K.lerp_full)"
#[kani::proof]
fn k_alpha_lerp_full_residual() {
    let b: u32 = kani::any();
    let d: u32 = kani::any();
    assert!(alpha_lerp(d, b, 255, 255) == lerp(d, b, 255), "alpha_lerp(d,b,255,255)==lerp(d,b,255)");
    kani::cover!(true);
}

// ---------------------------------------------------------------- SrcOver span blitters (paired with lane V unit shader_mask_blitter)
// over_in / over_in_in are replaced by arbitrary functions here (as in lane V): the span contract holds for ANY kernel.
pub static mut UF_OVER_IN: Uf = Uf::new();
pub static mut UF_OVER_IN_IN: Uf = Uf::new();
pub fn over_in_uf(src: u32, dst: u32, alpha: u32) -> u32 { unsafe { UF_OVER_IN.call([src, dst, alpha, 0]) } }
pub fn over_in_in_uf(src: u32, dst: u32, mask: u32, clip: u32) -> u32 { unsafe { UF_OVER_IN_IN.call([src, dst, mask, clip]) } }
pub struct AnyShader;
impl Shader for AnyShader {
    fn shade_span(&self, _x: i32, _y: i32, dest: &mut [u32], count: usize) {
        assert!(count <= dest.len(), "shade_span precondition: count <= dest.len()");
        let mut i = 0;
        while i < 3 {
            if i < count { dest[i] = kani::any(); }
            i += 1;
        }
    }
}

// @ob id=K.shader_mask_blitter_span props=C02,C03 kind=bounded:dest=3x2,count<=3 tier=quick timeout=600 fns=ShaderMaskBlitter::blit_span
// @+ desc="bounded twin of the lane-V contract (supplies counterexamples): every word of a 3x2 destination at any origin: inside the span and mask!=0 -> over_in(tmp[i], d, mask[i]); everything else bit-identical"
#[kani::proof]
#[kani::unwind(8)]
#[kani::stub(sw_composite::over_in, over_in_uf)]
fn k_shader_mask_blitter_span() {
    let ox: i32 = kani::any();
    let oy: i32 = kani::any();
    kani::assume(ox >= -100 && ox <= 100 && oy >= -100 && oy <= 100);
    let old: [u32; 6] = kani::any();
    let mut dest = old;
    let mask: [u8; 3] = kani::any();
    let y: i32 = kani::any();
    let x1: i32 = kani::any();
    let x2: i32 = kani::any();
    kani::assume(y >= oy && y < oy + 2 && x1 >= ox && x1 <= x2 && x2 <= ox + 3);
    let count = (x2 - x1) as usize;
    let shader = AnyShader;
    let mut b = ShaderMaskBlitter { x: ox, y: oy, shader: &shader, tmp: vec![0; 3], dest: &mut dest[..], dest_stride: 3 };
    b.blit_span(y, x1, x2, &mask[..count]);
    let tmp = [b.tmp[0], b.tmp[1], b.tmp[2]];
    let base = ((y - oy) * 3 + x1 - ox) as usize;
    let mut k = 0;
    while k < 6 {
        if k >= base && k < base + count && mask[k - base] != 0 {
            assert!(dest[k] == over_in(tmp[k - base], old[k], mask[k - base] as u32), "covered pixel = over_in(source, previous, coverage)");
        } else {
            assert!(dest[k] == old[k], "pixel outside the span or with zero coverage is bit-identical");
        }
        k += 1;
    }
    kani::cover!(count == 3 && y == oy + 1);
    kani::cover!(count == 2 && mask[0] == 0);
}

// @ob id=K.shader_clip_mask_blitter_span props=C02,C03,C05 kind=bounded:dest=3x2,count<=3 tier=quick timeout=600 fns=ShaderClipMaskBlitter::blit_span
// @+ desc="bounded twin of the lane-V contract: destination is a 2x2 layer at a symbolic origin inside a 3x2 surface; clip mask indexed at absolute device coordinates; covered and clip!=0 -> over_in_in(tmp[i], d, mask[i], clip[y*3+x]); everything else bit-identical"
#[kani::proof]
#[kani::unwind(8)]
#[kani::stub(sw_composite::over_in_in, over_in_in_uf)]
fn k_shader_clip_mask_blitter_span() {
    let ox: i32 = kani::any();
    let oy: i32 = 0;
    kani::assume(ox >= 0 && ox <= 1);
    let old: [u32; 4] = kani::any();
    let mut dest = old;
    let mask: [u8; 2] = kani::any();
    let clip: [u8; 7] = kani::any();
    let y: i32 = kani::any();
    let x1: i32 = kani::any();
    let x2: i32 = kani::any();
    kani::assume(y >= oy && y < oy + 2 && x1 >= ox && x1 <= x2 && x2 <= ox + 2);
    let count = (x2 - x1) as usize;
    let shader = AnyShader;
    let mut b = ShaderClipMaskBlitter { x: ox, y: oy, shader: &shader, tmp: vec![0; 3], dest: &mut dest[..], dest_stride: 2, clip: &clip[..], clip_stride: 3 };
    b.blit_span(y, x1, x2, &mask[..count]);
    let tmp = [b.tmp[0], b.tmp[1], b.tmp[2]];
    let base = ((y - oy) * 2 + x1 - ox) as usize;
    let mut k = 0;
    while k < 4 {
        if k >= base && k < base + count && mask[k - base] != 0 && clip[(y * 3 + x1) as usize + (k - base)] != 0 {
            assert!(dest[k] == over_in_in(tmp[k - base], old[k], mask[k - base] as u32, clip[(y * 3 + x1) as usize + (k - base)] as u32), "covered pixel = over_in_in(source, previous, coverage, clip coverage at the device position)");
        } else {
            assert!(dest[k] == old[k], "pixel outside the span, with zero coverage or zero clip coverage is bit-identical");
        }
        k += 1;
    }
    kani::cover!(count == 2 && ox == 1 && y == 1);
}

// ---------------------------------------------------------------- sources (C03 #5, C07 #9, C18 #3)
// @ob id=K.choose_shader_solid props=C03,C07,C18 kind=bounded:count<=3 tier=quick timeout=600 fns=choose_shader,SolidShader::shade_span
// @+ desc="choose_shader, solid source, EVERY f32 global alpha (NaN, negative, > 1, infinite included) and every colour: never panics; the span colour is alpha_mul(c, a256(A)) with A = round(alpha*255) for alpha in [0,1], A = 0 for NaN/negative, A = 255 for alpha >= 1; premultiplied colours stay premultiplied; shade_span writes exactly `count` entries"
#[kani::proof]
#[kani::unwind(5)]
fn k_choose_shader_solid() {
    let alpha: f32 = kani::any();
    let c = crate::SolidSource { r: kani::any(), g: kani::any(), b: kani::any(), a: kani::any() };
    let src = Source::Solid(c);
    let ti = Transform::identity();
    let mut storage = ShaderStorage::None;
    let shader = choose_shader(&ti, &src, alpha, &mut storage);
    let mut dest = [0x12345678u32; 4];
    let count: usize = kani::any();
    kani::assume(count <= 3);
    shader.shade_span(kani::any(), kani::any(), &mut dest[..], count);
    let a_byte: u32 = if alpha.is_nan() || alpha <= 0. { 0 } else if alpha >= 1. { 255 } else { (alpha * 255. + 0.5) as u32 };
    if alpha >= 0. && alpha <= 1. { assert!((a_byte as f32 - alpha * 255.).abs() <= 0.5, "alpha byte = round(alpha*255)"); }
    let color = alpha_mul(c.to_u32(), alpha_to_alpha256(a_byte));
    let mut i = 0;
    while i < 4 {
        if i < count { assert!(dest[i] == color, "span colour = source colour scaled by the global alpha"); }
        else { assert!(dest[i] == 0x12345678, "shade_span writes exactly count entries"); }
        i += 1;
    }
    if pm(c.to_u32()) { assert!(pm(color), "premultiplied stays premultiplied"); }
    if a_byte == 0 { assert!(color >> 24 == 0, "zero global alpha gives a transparent source"); }
    if a_byte == 255 { assert!(color == c.to_u32(), "alpha 1 leaves the colour unchanged"); }
    kani::cover!(alpha == 0.5 && count == 3);
    kani::cover!(alpha > 1.);
    kani::cover!(alpha.is_nan());
}

// ---------------------------------------------------------------- coverage accumulation (C01 #7, #8)
// @ob id=K.saturated_add props=C01,C07 kind=complete tier=quick timeout=120 fns=saturated_add,coverage_to_partial_alpha
// @+ desc="saturated_add(a,b) == min(a+b,255) for every a,b with a+b <= 256 (the caller's guarantee); coverage_to_partial_alpha(c) == 16*c for 0 <= c <= 15, no overflow"
#[kani::proof]
fn k_saturated_add() {
    let a: u8 = kani::any();
    let b: u8 = kani::any();
    kani::assume(a as u32 + b as u32 <= 256);
    let s = a as u32 + b as u32;
    assert!(saturated_add(a, b) as u32 == if s > 255 { 255 } else { s }, "saturated_add = min(a+b,255)");
    let c: i32 = kani::any();
    kani::assume(c >= 0 && c <= 15);
    assert!(coverage_to_partial_alpha(c) as i32 == 16 * c, "partial alpha = cells << 4");
    kani::cover!(s == 256);
}

fn cells(k: i32, x1: i32, x2: i32) -> i32 {
    let lo = x1.max(4 * k);
    let hi = x2.min(4 * k + 4);
    if hi > lo { hi - lo } else { 0 }
}

// @ob id=K.mask_super_blit_span props=C01,C07,C02 kind=bounded:width<=4,rows=2 tier=quick timeout=900 fns=MaskSuperBlitter::blit_span
// @+ desc="MaskSuperBlitter::blit_span on a w x 2 mask (w symbolic <= 4, symbolic origin, symbolic contents): with row=(y-self.y)/4, sub=(y-self.y)&3, x2'=min(x2,4w): every byte of the whole buffer (slack byte included) becomes old + acc where acc = 16*cells for the first and last touched pixel, 64-(sub==3) for pixels strictly between, 0 elsewhere (cells = quarter-pixel cells of that pixel inside [x1,x2')), saturating at 255 when the sum is 256; no index out of bounds (only the one slack byte past the end may be addressed), no u8 overflow under the caller's guarantee that a pixel never accumulates more than 256"
#[kani::proof]
#[kani::unwind(11)]
fn k_mask_super_blit_span() { mask_super_contract::<9>(4); }
// @ob id=K.mask_super_blit_span_w6 props=C01,C02,C07 kind=bounded:width<=6,rows=2 tier=thorough timeout=3000 fns=MaskSuperBlitter::blit_span
// @+ desc="MaskSuperBlitter::blit_span, same contract as K.mask_super_blit_span for masks up to 6 pixels wide (up to 4 interior pixels per span)"
#[kani::proof]
#[kani::unwind(15)]
fn k_mask_super_blit_span_w6() { mask_super_contract::<13>(6); }
fn mask_super_contract<const N: usize>(maxw: i32) {
    let w: i32 = kani::any();
    kani::assume(w >= 0 && w <= maxw);
    let ox: i32 = kani::any();
    let oy: i32 = kani::any();
    kani::assume(ox >= -50 && ox <= 50 && oy >= -50 && oy <= 50);
    let old: [u8; N] = kani::any();
    let n = (w * 2) as usize + 1;
    let mut b = MaskSuperBlitter { x: ox * 4, y: oy * 4, width: w, buf: old[..n].to_vec() };
    let y: i32 = kani::any();
    let x1: i32 = kani::any();
    let x2: i32 = kani::any();
    kani::assume(y >= oy * 4 && y < oy * 4 + 8);
    kani::assume(x1 >= ox * 4 && x1 <= x2 && x2 <= 1000 && x1 - ox * 4 <= 4 * w);
    let yl = y - oy * 4;
    let (row, sub) = (yl / 4, yl & 3);
    let x1l = x1 - ox * 4;
    let x2c = (x2 - ox * 4).min(4 * w);
    let (p1, p2) = (x1l >> 2, x2c >> 2);
    // caller's guarantee: no pixel accumulates past 256 (255 for interior pixels which are added without saturation)
    let mut k = 0;
    while k <= maxw {
        if k <= w {
            let idx = (row * w + k) as usize;
            if idx < n {
                let c = cells(k, x1l, x2c);
                let acc = if k == p1 || k == p2 { 16 * c } else if c > 0 { 64 - (sub == 3) as i32 } else { 0 };
                kani::assume(old[idx] as i32 + acc <= if k == p1 || k == p2 { 256 } else { 255 });
            }
        }
        k += 1;
    }
    b.blit_span(y, x1, x2);
    assert!(b.buf.len() == n && b.width == w && b.x == ox * 4 && b.y == oy * 4, "frame");
    let mut i = 0;
    while i < N {
        if i < n {
            let r = if w > 0 { i as i32 / w } else { 0 };
            let kx = i as i32 - row * w; // column relative to the touched row (w = one past the end = slack/next row start)
            let mut exp = old[i] as i32;
            if kx >= 0 && kx <= w && (w > 0 || i == 0) {
                let c = cells(kx, x1l, x2c);
                let acc = if kx == p1 || kx == p2 { 16 * c } else if c > 0 { 64 - (sub == 3) as i32 } else { 0 };
                exp = (old[i] as i32 + acc).min(255);
            }
            let _ = r;
            assert!(b.buf[i] as i32 == exp, "coverage byte = old + acc(sub-row, cells)");
        }
        i += 1;
    }
    kani::cover!(w == maxw && p2 - p1 == maxw - 1 && sub == 3);
    kani::cover!(w == 3 && p1 == p2 && x2c > x1l);
    kani::cover!(x2 - ox * 4 > 4 * w);
}

// ---------------------------------------------------------------- helper for K.push_clip_driver_* (stub of MaskSuperBlitter::new)
pub static mut COV: [u8; 7] = [0; 7];
pub fn super_blitter_sym(x: i32, y: i32, width: i32, height: i32) -> MaskSuperBlitter {
    let mut buf = vec![0u8; (width * height) as usize + 1];
    let mut i = 0;
    while i < 7 { if i < buf.len() { buf[i] = unsafe { COV[i] }; } i += 1; }
    MaskSuperBlitter { x: x * SCALE, y: y * SCALE, width, buf }
}

// ---------------------------------------------------------------- premultiplied-alpha validity of the kernels (C18 #1-#3)
// @ob id=K.pm_sources props=C18,C19 kind=complete tier=quick timeout=900 fns=sw_composite::alpha_mul,SolidSource::from_unpremultiplied_argb,SolidSource::from,Source::from
// @+ desc="alpha_mul(p, a256) keeps r,g,b <= a for a256 in [1,256]; SolidSource::from_unpremultiplied_argb and From<Color> produce r,g,b <= a for every a,r,g,b"
#[kani::proof]
fn k_pm_sources() {
    let p: u32 = kani::any();
    let a: u32 = kani::any();
    kani::assume(pm(p) && a >= 1 && a <= 256);
    assert!(pm(alpha_mul(p, a)), "alpha_mul keeps r,g,b <= a");
    let (ca, cr, cg, cb): (u8, u8, u8, u8) = (kani::any(), kani::any(), kani::any(), kani::any());
    let s = crate::SolidSource::from_unpremultiplied_argb(ca, cr, cg, cb);
    assert!(s.r <= s.a && s.g <= s.a && s.b <= s.a && s.a == ca, "from_unpremultiplied_argb premultiplies");
    let s2 = crate::SolidSource::from(Color::new(ca, cr, cg, cb));
    assert!(s2 == s && pm(s2.to_u32()), "From<Color> premultiplies");
    match Source::from(Color::new(ca, cr, cg, cb)) { Source::Solid(s3) => assert!(s3 == s, "Source::from(Color) premultiplies the same way"), _ => assert!(false, "Source::from(Color) is a solid source") }
    match Source::from(s) { Source::Solid(s4) => assert!(s4 == s, "Source::from(SolidSource) keeps the colour"), _ => assert!(false, "solid") }
    assert!(s.to_u32() == ((s.a as u32) << 24) | ((s.r as u32) << 16) | ((s.g as u32) << 8) | (s.b as u32), "to_u32 packs (A<<24)|(R<<16)|(G<<8)|B");
    kani::cover!(ca == 128 && cr == 255);
}

// ---------------------------------------------------------------- image sources, integer-translation fast paths (C13 #1-#3)
pub static mut UF_AMUL: Uf = Uf::new();
pub fn alpha_mul_uf(x: u32, a: u32) -> u32 { unsafe { UF_AMUL.call([x, a, 0, 0]) } }

// @ob id=K.is_integer_transform props=C13,C07,C11 kind=complete tier=quick timeout=600 fns=is_integer_transform
// @+ desc="is_integer_transform for every six f32 (NaN and infinities included; finite translations up to 2^30): Some((tx,ty)) exactly when the matrix is [1 0 0 1 tx ty] with tx,ty integral and representable as i32 (then tx,ty are those integers); None otherwise; never panics"
#[kani::proof]
fn k_is_integer_transform() {
    let m: [f32; 6] = kani::any();
    // translations beyond 2^30 pixels are outside the 16.16 working range (at exactly 2^31 the saturating cast is off by one)
    kani::assume(!(m[4].is_finite() && m[4].abs() > 1073741824.0) && !(m[5].is_finite() && m[5].abs() > 1073741824.0));
    let t = Transform::new(m[0], m[1], m[2], m[3], m[4], m[5]);
    let r = is_integer_transform(&t);
    let unit = m[0] == 1. && m[1] == 0. && m[2] == 0. && m[3] == 1.;
    let int_ok = |v: f32| v.is_finite() && v >= -2147483648.0 && v < 2147483648.0 && (v as i32) as f32 == v;
    match r {
        Some(p) => assert!(unit && int_ok(m[4]) && int_ok(m[5]) && p.x as f32 == m[4] && p.y as f32 == m[5], "Some only for pure integer translations, with those offsets"),
        None => assert!(!(unit && int_ok(m[4]) && int_ok(m[5])), "every pure integer translation is recognised"),
    }
    kani::cover!(r.is_some());
    kani::cover!(unit && r.is_none());
}

fn clampi(v: i32, lo: i32, hi: i32) -> i32 { if v < lo { lo } else if v > hi { hi } else { v } }

// @ob id=K.image_pad_shader props=C13,C07,C06 kind=bounded:image<=3x2,count<=4 tier=quick timeout=900 fns=ImagePadAlphaShader::shade_span,ImagePadAlphaShader::new
// @+ desc="ImagePadAlphaShader::shade_span for images up to 3x2 (symbolic size and texels), x,y and offsets symbolic in ±2^20, count<=4: dest[i] = alpha_mul(texel(clamp(x+ox+i,0,w-1), clamp(y+oy,0,h-1)), alpha+1) for i<count (texel (i,j) lands on pixel (i-ox, j-oy); outside the image the edge texel is repeated), entries >= count untouched, no out-of-range read; alpha_mul as an uninterpreted function (K.alpha_mul_256 proves alpha_mul(t,256)==t)"
#[kani::proof]
#[kani::unwind(8)]
#[kani::stub(sw_composite::alpha_mul, alpha_mul_uf)]
fn k_image_pad_shader() {
    let data: [u32; 6] = kani::any();
    let w: i32 = kani::any();
    let h: i32 = kani::any();
    kani::assume(w >= 1 && w <= 3 && h >= 1 && h <= 2);
    let img = Image { width: w, height: h, data: &data[..(w * h) as usize] };
    let (ox, oy, x, y): (i32, i32, i32, i32) = (kani::any(), kani::any(), kani::any(), kani::any());
    kani::assume(ox >= -(1 << 20) && ox <= 1 << 20 && oy >= -(1 << 20) && oy <= 1 << 20 && x >= -(1 << 20) && x <= 1 << 20 && y >= -(1 << 20) && y <= 1 << 20);
    let alpha: u32 = kani::any();
    kani::assume(alpha <= 255);
    let sh = ImagePadAlphaShader::new(&img, ox, oy, alpha);
    let mut dest = [0xdeadbeefu32; 5];
    let count: usize = kani::any();
    kani::assume(count <= 4);
    sh.shade_span(x, y, &mut dest[..], count);
    let yy = clampi(y + oy, 0, h - 1);
    let mut i = 0;
    while i < 5 {
        if i < count {
            let xx = clampi(x + ox + i as i32, 0, w - 1);
            assert!(dest[i] == alpha_mul(data[(yy * w + xx) as usize], alpha + 1), "texel under the pixel, clamped to the edge, scaled by the global alpha");
        } else {
            assert!(dest[i] == 0xdeadbeef, "entries beyond count untouched");
        }
        i += 1;
    }
    kani::cover!(count == 4 && x + ox == -1 && w == 2);
    kani::cover!(count == 3 && x + ox >= w);
}

// @ob id=K.image_repeat_shader props=C13,C07 kind=bounded:image<=3x2,count<=4 tier=quick timeout=900 fns=ImageRepeatAlphaShader::shade_span,ImageRepeatAlphaShader::new
// @+ desc="ImageRepeatAlphaShader::shade_span, same domain: dest[i] = alpha_mul(texel((x+ox+i) mod w, (y+oy) mod h), alpha+1) with Euclidean modulo (negative coordinates wrap too, runs crossing the right edge restart at column 0), entries >= count untouched, no out-of-range read"
#[kani::proof]
#[kani::unwind(8)]
#[kani::stub(sw_composite::alpha_mul, alpha_mul_uf)]
fn k_image_repeat_shader() {
    let data: [u32; 6] = kani::any();
    let w: i32 = kani::any();
    let h: i32 = kani::any();
    kani::assume(w >= 1 && w <= 3 && h >= 1 && h <= 2);
    let img = Image { width: w, height: h, data: &data[..(w * h) as usize] };
    let (ox, oy, x, y): (i32, i32, i32, i32) = (kani::any(), kani::any(), kani::any(), kani::any());
    kani::assume(ox >= -(1 << 20) && ox <= 1 << 20 && oy >= -(1 << 20) && oy <= 1 << 20 && x >= -(1 << 20) && x <= 1 << 20 && y >= -(1 << 20) && y <= 1 << 20);
    let alpha: u32 = kani::any();
    kani::assume(alpha <= 255);
    let sh = ImageRepeatAlphaShader::new(&img, ox, oy, alpha);
    let mut dest = [0xdeadbeefu32; 5];
    let count: usize = kani::any();
    kani::assume(count <= 4);
    sh.shade_span(x, y, &mut dest[..], count);
    let yy = (y + oy).rem_euclid(h);
    let mut i = 0;
    while i < 5 {
        if i < count {
            let xx = (x + ox + i as i32).rem_euclid(w);
            assert!(dest[i] == alpha_mul(data[(yy * w + xx) as usize], alpha + 1), "texel under the pixel, wrapped modulo the image size, scaled by the global alpha");
        } else {
            assert!(dest[i] == 0xdeadbeef, "entries beyond count untouched");
        }
        i += 1;
    }
    kani::cover!(count == 4 && w == 3 && x + ox < 0);
}

// @ob id=K.alpha_mul_256 props=C13,C06,C03 kind=complete tier=quick timeout=300 fns=sw_composite::alpha_mul
// @+ desc="alpha_mul(t, 256) == t for every word: global alpha 1 (alpha byte 255) returns the texel unchanged; alpha_mul(t, 1) has zero alpha for every premultiplied... (alpha byte 0 gives a transparent source)"
#[kani::proof]
fn k_alpha_mul_256() {
    let t: u32 = kani::any();
    assert!(alpha_mul(t, 256) == t, "alpha 1 leaves the texel unchanged");
    assert!(alpha_mul(t, alpha_to_alpha256(0)) >> 24 == 0, "alpha 0 gives zero alpha");
    kani::cover!(true);
}

// @ob id=K.mask_blit_span props=C01,C02,C07 kind=bounded:width<=4,rows=2 tier=quick timeout=900 fns=MaskBlitter::blit_span
// @+ desc="bounded twin of lane-V unit mask_blitter (supplies counterexamples): MaskBlitter::blit_span on a w x 2 mask (w<=4, symbolic origin and contents): on a first sample row exactly bytes row*w + [x1>>2, min(x2,4w)>>2) become 0xff, on other sample rows nothing changes; every other byte (slack byte included) is unchanged; no out-of-bounds write for spans reaching past the right edge"
#[kani::proof]
#[kani::unwind(11)]
fn k_mask_blit_span() {
    let w: i32 = kani::any();
    kani::assume(w >= 0 && w <= 4);
    let ox: i32 = kani::any();
    let oy: i32 = kani::any();
    kani::assume(ox >= -50 && ox <= 50 && oy >= -50 && oy <= 50);
    let old: [u8; 9] = kani::any();
    let n = (w * 2) as usize + 1;
    let mut b = MaskBlitter { x: ox * 4, y: oy * 4, width: w, buf: old[..n].to_vec() };
    let y: i32 = kani::any();
    let x1: i32 = kani::any();
    let x2: i32 = kani::any();
    kani::assume(y >= oy * 4 && y < oy * 4 + 8);
    kani::assume(x1 >= ox * 4 && x1 <= x2 && x2 <= 1000 && x1 - ox * 4 <= 4 * w);
    b.blit_span(y, x1, x2);
    let yl = y - oy * 4;
    let (p1, p2) = ((x1 - ox * 4) >> 2, ((x2 - ox * 4).min(4 * w)) >> 2);
    let mut i = 0;
    while i < 9 {
        if i < n {
            let k = i as i32 - (yl / 4) * w;
            let hit = yl % 4 == 0 && k >= p1 && k < p2;
            assert!(b.buf[i] == if hit { 0xff } else { old[i] }, "aliased mask: first sample row only, pixels [x1>>2, x2>>2)");
        }
        i += 1;
    }
    assert!(b.buf.len() == n, "frame");
    kani::cover!(w == 4 && p2 - p1 == 4 && yl == 4);
    kani::cover!(x2 - ox * 4 > 4 * w + 8);
}

// ---------------------------------------------------------------- premultiplied validity of the blend kernels (C18 #1, #2)
// CBMC decides "r,g,b <= a is preserved" only when the coverage/weight is a constant (symbolic x symbolic products and a
// conjunction over several weights both time out), so every one of the 256 coverage values of over_in and the 257 weights of
// lerp is its own loop-free obligation over all 64 bits of (src, dst).  Together they are the complete statement.
// over_in_in and alpha_lerp reduce to over_in / lerp at a derived weight (K.pm_reductions).
macro_rules! pm_over_in_at { ($name:ident, $m:expr) => {
    #[kani::proof]
    fn $name() {
        let s: u32 = kani::any();
        let d: u32 = kani::any();
        kani::assume(pm(s) && pm(d));
        assert!(pm(over_in(s, d, $m)), "over_in keeps r,g,b <= a");
        kani::cover!(true);
    } } }
macro_rules! pm_lerp_at { ($name:ident, $t:expr) => {
    #[kani::proof]
    fn $name() {
        let b: u32 = kani::any();
        let d: u32 = kani::any();
        kani::assume(pm(b) && pm(d));
        assert!(pm(lerp(d, b, $t)), "lerp keeps r,g,b <= a");
        kani::cover!(true);
    } } }

// @ob id=K.pm_reduction_alpha_lerp props=C18,C03 kind=complete tier=quick timeout=600 fns=sw_composite::alpha_lerp
// @+ desc="alpha_lerp(d,b,m,c) == lerp(d,b,k) with k = (p + (p >> 8)) >> 8, p = c*(m+1), k in [0,255]: the clipped interpolation is the unclipped one at a derived weight, for all inputs"
#[kani::proof]
fn k_pm_reduction_alpha_lerp() {
    let s: u32 = kani::any();
    let d: u32 = kani::any();
    let m: u8 = kani::any();
    let c: u8 = kani::any();
    let p = alpha_to_alpha256(m as u32) * (c as u32);
    let k = (p + (p >> 8)) >> 8;
    assert!(k <= 255, "derived weight is a coverage byte");
    assert!(alpha_lerp(d, s, m as u32, c as u32) == lerp(d, s, k), "alpha_lerp == lerp at the derived weight");
    kani::cover!(k == 255);
}

// @ob id=K.pm_reduction_over_in_in props=C18,C03 kind=complete tier=quick timeout=900 fns=sw_composite::over_in_in
// @+ desc="over_in_in(s,d,m,c) == over_in(s,d,k) with k = (p + (p >> 8)) >> 8, p = c*(m+1): the clipped source-over is the unclipped one at a derived coverage, for all premultiplied inputs"
#[kani::proof]
fn k_pm_reduction_over_in_in() {
    let s: u32 = kani::any();
    let d: u32 = kani::any();
    let m: u8 = kani::any();
    let c: u8 = kani::any();
    kani::assume(pm(s) && pm(d));
    let p = (c as u32) * alpha_to_alpha256(m as u32);
    let k = (p + (p >> 8)) >> 8;
    assert!(k <= 255, "derived weight is a coverage byte");
    assert!(over_in_in(s, d, m as u32, c as u32) == over_in(s, d, k), "over_in_in == over_in at the derived weight");
    kani::cover!(k == 255);
}

// @ob id=K.pm_over_in_000 props=C18 kind=complete tier=quick timeout=900 fns=sw_composite::over_in
// @+ desc="over_in(s,d,0) keeps r,g,b <= a for all premultiplied s,d (one of the 256 coverage values; all 256 together are the complete statement)"
pm_over_in_at!(k_pm_over_in_000, 0);
// @ob id=K.pm_over_in_001 props=C18 kind=complete tier=quick timeout=900 fns=sw_composite::over_in
// @+ desc="over_in(s,d,1) keeps r,g,b <= a for all premultiplied s,d (one of the 256 coverage values; all 256 together are the complete statement)"
pm_over_in_at!(k_pm_over_in_001, 1);
// @ob id=K.pm_over_in_002 props=C18 kind=complete tier=thorough timeout=900 fns=sw_composite::over_in
// @+ desc="over_in(s,d,2) keeps r,g,b <= a for all premultiplied s,d (one of the 256 coverage values; all 256 together are the complete statement)"
pm_over_in_at!(k_pm_over_in_002, 2);
// @ob id=K.pm_over_in_003 props=C18 kind=complete tier=thorough timeout=900 fns=sw_composite::over_in
// @+ desc="over_in(s,d,3) keeps r,g,b <= a for all premultiplied s,d (one of the 256 coverage values; all 256 together are the complete statement)"
pm_over_in_at!(k_pm_over_in_003, 3);
// @ob id=K.pm_over_in_004 props=C18 kind=complete tier=thorough timeout=900 fns=sw_composite::over_in
// @+ desc="over_in(s,d,4) keeps r,g,b <= a for all premultiplied s,d (one of the 256 coverage values; all 256 together are the complete statement)"
pm_over_in_at!(k_pm_over_in_004, 4);
// @ob id=K.pm_over_in_005 props=C18 kind=complete tier=thorough timeout=900 fns=sw_composite::over_in
// @+ desc="over_in(s,d,5) keeps r,g,b <= a for all premultiplied s,d (one of the 256 coverage values; all 256 together are the complete statement)"
pm_over_in_at!(k_pm_over_in_005, 5);
// @ob id=K.pm_over_in_006 props=C18 kind=complete tier=thorough timeout=900 fns=sw_composite::over_in
// @+ desc="over_in(s,d,6) keeps r,g,b <= a for all premultiplied s,d (one of the 256 coverage values; all 256 together are the complete statement)"
pm_over_in_at!(k_pm_over_in_006, 6);
// @ob id=K.pm_over_in_007 props=C18 kind=complete tier=thorough timeout=900 fns=sw_composite::over_in
// @+ desc="over_in(s,d,7) keeps r,g,b <= a for all premultiplied s,d (one of the 256 coverage values; all 256 together are the complete statement)"
pm_over_in_at!(k_pm_over_in_007, 7);
// @ob id=K.pm_over_in_008 props=C18 kind=complete tier=thorough timeout=900 fns=sw_composite::over_in
// @+ desc="over_in(s,d,8) keeps r,g,b <= a for all premultiplied s,d (one of the 256 coverage values; all 256 together are the complete statement)"
pm_over_in_at!(k_pm_over_in_008, 8);
// @ob id=K.pm_over_in_009 props=C18 kind=complete tier=thorough timeout=900 fns=sw_composite::over_in
// @+ desc="over_in(s,d,9) keeps r,g,b <= a for all premultiplied s,d (one of the 256 coverage values; all 256 together are the complete statement)"
pm_over_in_at!(k_pm_over_in_009, 9);
// @ob id=K.pm_over_in_010 props=C18 kind=complete tier=thorough timeout=900 fns=sw_composite::over_in
// @+ desc="over_in(s,d,10) keeps r,g,b <= a for all premultiplied s,d (one of the 256 coverage values; all 256 together are the complete statement)"
pm_over_in_at!(k_pm_over_in_010, 10);
// @ob id=K.pm_over_in_011 props=C18 kind=complete tier=thorough timeout=900 fns=sw_composite::over_in
// @+ desc="over_in(s,d,11) keeps r,g,b <= a for all premultiplied s,d (one of the 256 coverage values; all 256 together are the complete statement)"
pm_over_in_at!(k_pm_over_in_011, 11);
// @ob id=K.pm_over_in_012 props=C18 kind=complete tier=thorough timeout=900 fns=sw_composite::over_in
// @+ desc="over_in(s,d,12) keeps r,g,b <= a for all premultiplied s,d (one of the 256 coverage values; all 256 together are the complete statement)"
pm_over_in_at!(k_pm_over_in_012, 12);
// @ob id=K.pm_over_in_013 props=C18 kind=complete tier=thorough timeout=900 fns=sw_composite::over_in
// @+ desc="over_in(s,d,13) keeps r,g,b <= a for all premultiplied s,d (one of the 256 coverage values; all 256 together are the complete statement)"
pm_over_in_at!(k_pm_over_in_013, 13);
// @ob id=K.pm_over_in_014 props=C18 kind=complete tier=thorough timeout=900 fns=sw_composite::over_in
// @+ desc="over_in(s,d,14) keeps r,g,b <= a for all premultiplied s,d (one of the 256 coverage values; all 256 together are the complete statement)"
pm_over_in_at!(k_pm_over_in_014, 14);
// @ob id=K.pm_over_in_015 props=C18 kind=complete tier=thorough timeout=900 fns=sw_composite::over_in
// @+ desc="over_in(s,d,15) keeps r,g,b <= a for all premultiplied s,d (one of the 256 coverage values; all 256 together are the complete statement)"
pm_over_in_at!(k_pm_over_in_015, 15);
// @ob id=K.pm_over_in_016 props=C18 kind=complete tier=thorough timeout=900 fns=sw_composite::over_in
// @+ desc="over_in(s,d,16) keeps r,g,b <= a for all premultiplied s,d (one of the 256 coverage values; all 256 together are the complete statement)"
pm_over_in_at!(k_pm_over_in_016, 16);
// @ob id=K.pm_over_in_017 props=C18 kind=complete tier=thorough timeout=900 fns=sw_composite::over_in
// @+ desc="over_in(s,d,17) keeps r,g,b <= a for all premultiplied s,d (one of the 256 coverage values; all 256 together are the complete statement)"
pm_over_in_at!(k_pm_over_in_017, 17);
// @ob id=K.pm_over_in_018 props=C18 kind=complete tier=thorough timeout=900 fns=sw_composite::over_in
// @+ desc="over_in(s,d,18) keeps r,g,b <= a for all premultiplied s,d (one of the 256 coverage values; all 256 together are the complete statement)"
pm_over_in_at!(k_pm_over_in_018, 18);
// @ob id=K.pm_over_in_019 props=C18 kind=complete tier=thorough timeout=900 fns=sw_composite::over_in
// @+ desc="over_in(s,d,19) keeps r,g,b <= a for all premultiplied s,d (one of the 256 coverage values; all 256 together are the complete statement)"
pm_over_in_at!(k_pm_over_in_019, 19);
// @ob id=K.pm_over_in_020 props=C18 kind=complete tier=thorough timeout=900 fns=sw_composite::over_in
// @+ desc="over_in(s,d,20) keeps r,g,b <= a for all premultiplied s,d (one of the 256 coverage values; all 256 together are the complete statement)"
pm_over_in_at!(k_pm_over_in_020, 20);
// @ob id=K.pm_over_in_021 props=C18 kind=complete tier=thorough timeout=900 fns=sw_composite::over_in
// @+ desc="over_in(s,d,21) keeps r,g,b <= a for all premultiplied s,d (one of the 256 coverage values; all 256 together are the complete statement)"
pm_over_in_at!(k_pm_over_in_021, 21);
// @ob id=K.pm_over_in_022 props=C18 kind=complete tier=thorough timeout=900 fns=sw_composite::over_in
// @+ desc="over_in(s,d,22) keeps r,g,b <= a for all premultiplied s,d (one of the 256 coverage values; all 256 together are the complete statement)"
pm_over_in_at!(k_pm_over_in_022, 22);
// @ob id=K.pm_over_in_023 props=C18 kind=complete tier=thorough timeout=900 fns=sw_composite::over_in
// @+ desc="over_in(s,d,23) keeps r,g,b <= a for all premultiplied s,d (one of the 256 coverage values; all 256 together are the complete statement)"
pm_over_in_at!(k_pm_over_in_023, 23);
// @ob id=K.pm_over_in_024 props=C18 kind=complete tier=thorough timeout=900 fns=sw_composite::over_in
// @+ desc="over_in(s,d,24) keeps r,g,b <= a for all premultiplied s,d (one of the 256 coverage values; all 256 together are the complete statement)"
pm_over_in_at!(k_pm_over_in_024, 24);
// @ob id=K.pm_over_in_025 props=C18 kind=complete tier=thorough timeout=900 fns=sw_composite::over_in
// @+ desc="over_in(s,d,25) keeps r,g,b <= a for all premultiplied s,d (one of the 256 coverage values; all 256 together are the complete statement)"
pm_over_in_at!(k_pm_over_in_025, 25);
// @ob id=K.pm_over_in_026 props=C18 kind=complete tier=thorough timeout=900 fns=sw_composite::over_in
// @+ desc="over_in(s,d,26) keeps r,g,b <= a for all premultiplied s,d (one of the 256 coverage values; all 256 together are the complete statement)"
pm_over_in_at!(k_pm_over_in_026, 26);
// @ob id=K.pm_over_in_027 props=C18 kind=complete tier=thorough timeout=900 fns=sw_composite::over_in
// @+ desc="over_in(s,d,27) keeps r,g,b <= a for all premultiplied s,d (one of the 256 coverage values; all 256 together are the complete statement)"
pm_over_in_at!(k_pm_over_in_027, 27);
// @ob id=K.pm_over_in_028 props=C18 kind=complete tier=thorough timeout=900 fns=sw_composite::over_in
// @+ desc="over_in(s,d,28) keeps r,g,b <= a for all premultiplied s,d (one of the 256 coverage values; all 256 together are the complete statement)"
pm_over_in_at!(k_pm_over_in_028, 28);
// @ob id=K.pm_over_in_029 props=C18 kind=complete tier=thorough timeout=900 fns=sw_composite::over_in
// @+ desc="over_in(s,d,29) keeps r,g,b <= a for all premultiplied s,d (one of the 256 coverage values; all 256 together are the complete statement)"
pm_over_in_at!(k_pm_over_in_029, 29);
// @ob id=K.pm_over_in_030 props=C18 kind=complete tier=thorough timeout=900 fns=sw_composite::over_in
// @+ desc="over_in(s,d,30) keeps r,g,b <= a for all premultiplied s,d (one of the 256 coverage values; all 256 together are the complete statement)"
pm_over_in_at!(k_pm_over_in_030, 30);
// @ob id=K.pm_over_in_031 props=C18 kind=complete tier=thorough timeout=900 fns=sw_composite::over_in
// @+ desc="over_in(s,d,31) keeps r,g,b <= a for all premultiplied s,d (one of the 256 coverage values; all 256 together are the complete statement)"
pm_over_in_at!(k_pm_over_in_031, 31);
// @ob id=K.pm_over_in_032 props=C18 kind=complete tier=thorough timeout=900 fns=sw_composite::over_in
// @+ desc="over_in(s,d,32) keeps r,g,b <= a for all premultiplied s,d (one of the 256 coverage values; all 256 together are the complete statement)"
pm_over_in_at!(k_pm_over_in_032, 32);
// @ob id=K.pm_over_in_033 props=C18 kind=complete tier=thorough timeout=900 fns=sw_composite::over_in
// @+ desc="over_in(s,d,33) keeps r,g,b <= a for all premultiplied s,d (one of the 256 coverage values; all 256 together are the complete statement)"
pm_over_in_at!(k_pm_over_in_033, 33);
// @ob id=K.pm_over_in_034 props=C18 kind=complete tier=thorough timeout=900 fns=sw_composite::over_in
// @+ desc="over_in(s,d,34) keeps r,g,b <= a for all premultiplied s,d (one of the 256 coverage values; all 256 together are the complete statement)"
pm_over_in_at!(k_pm_over_in_034, 34);
// @ob id=K.pm_over_in_035 props=C18 kind=complete tier=thorough timeout=900 fns=sw_composite::over_in
// @+ desc="over_in(s,d,35) keeps r,g,b <= a for all premultiplied s,d (one of the 256 coverage values; all 256 together are the complete statement)"
pm_over_in_at!(k_pm_over_in_035, 35);
// @ob id=K.pm_over_in_036 props=C18 kind=complete tier=thorough timeout=900 fns=sw_composite::over_in
// @+ desc="over_in(s,d,36) keeps r,g,b <= a for all premultiplied s,d (one of the 256 coverage values; all 256 together are the complete statement)"
pm_over_in_at!(k_pm_over_in_036, 36);
// @ob id=K.pm_over_in_037 props=C18 kind=complete tier=thorough timeout=900 fns=sw_composite::over_in
// @+ desc="over_in(s,d,37) keeps r,g,b <= a for all premultiplied s,d (one of the 256 coverage values; all 256 together are the complete statement)"
pm_over_in_at!(k_pm_over_in_037, 37);
// @ob id=K.pm_over_in_038 props=C18 kind=complete tier=thorough timeout=900 fns=sw_composite::over_in
// @+ desc="over_in(s,d,38) keeps r,g,b <= a for all premultiplied s,d (one of the 256 coverage values; all 256 together are the complete statement)"
pm_over_in_at!(k_pm_over_in_038, 38);
// @ob id=K.pm_over_in_039 props=C18 kind=complete tier=thorough timeout=900 fns=sw_composite::over_in
// @+ desc="over_in(s,d,39) keeps r,g,b <= a for all premultiplied s,d (one of the 256 coverage values; all 256 together are the complete statement)"
pm_over_in_at!(k_pm_over_in_039, 39);
// @ob id=K.pm_over_in_040 props=C18 kind=complete tier=thorough timeout=900 fns=sw_composite::over_in
// @+ desc="over_in(s,d,40) keeps r,g,b <= a for all premultiplied s,d (one of the 256 coverage values; all 256 together are the complete statement)"
pm_over_in_at!(k_pm_over_in_040, 40);
// @ob id=K.pm_over_in_041 props=C18 kind=complete tier=thorough timeout=900 fns=sw_composite::over_in
// @+ desc="over_in(s,d,41) keeps r,g,b <= a for all premultiplied s,d (one of the 256 coverage values; all 256 together are the complete statement)"
pm_over_in_at!(k_pm_over_in_041, 41);
// @ob id=K.pm_over_in_042 props=C18 kind=complete tier=thorough timeout=900 fns=sw_composite::over_in
// @+ desc="over_in(s,d,42) keeps r,g,b <= a for all premultiplied s,d (one of the 256 coverage values; all 256 together are the complete statement)"
pm_over_in_at!(k_pm_over_in_042, 42);
// @ob id=K.pm_over_in_043 props=C18 kind=complete tier=thorough timeout=900 fns=sw_composite::over_in
// @+ desc="over_in(s,d,43) keeps r,g,b <= a for all premultiplied s,d (one of the 256 coverage values; all 256 together are the complete statement)"
pm_over_in_at!(k_pm_over_in_043, 43);
// @ob id=K.pm_over_in_044 props=C18 kind=complete tier=thorough timeout=900 fns=sw_composite::over_in
// @+ desc="over_in(s,d,44) keeps r,g,b <= a for all premultiplied s,d (one of the 256 coverage values; all 256 together are the complete statement)"
pm_over_in_at!(k_pm_over_in_044, 44);
// @ob id=K.pm_over_in_045 props=C18 kind=complete tier=thorough timeout=900 fns=sw_composite::over_in
// @+ desc="over_in(s,d,45) keeps r,g,b <= a for all premultiplied s,d (one of the 256 coverage values; all 256 together are the complete statement)"
pm_over_in_at!(k_pm_over_in_045, 45);
// @ob id=K.pm_over_in_046 props=C18 kind=complete tier=thorough timeout=900 fns=sw_composite::over_in
// @+ desc="over_in(s,d,46) keeps r,g,b <= a for all premultiplied s,d (one of the 256 coverage values; all 256 together are the complete statement)"
pm_over_in_at!(k_pm_over_in_046, 46);
// @ob id=K.pm_over_in_047 props=C18 kind=complete tier=thorough timeout=900 fns=sw_composite::over_in
// @+ desc="over_in(s,d,47) keeps r,g,b <= a for all premultiplied s,d (one of the 256 coverage values; all 256 together are the complete statement)"
pm_over_in_at!(k_pm_over_in_047, 47);
// @ob id=K.pm_over_in_048 props=C18 kind=complete tier=thorough timeout=900 fns=sw_composite::over_in
// @+ desc="over_in(s,d,48) keeps r,g,b <= a for all premultiplied s,d (one of the 256 coverage values; all 256 together are the complete statement)"
pm_over_in_at!(k_pm_over_in_048, 48);
// @ob id=K.pm_over_in_049 props=C18 kind=complete tier=thorough timeout=900 fns=sw_composite::over_in
// @+ desc="over_in(s,d,49) keeps r,g,b <= a for all premultiplied s,d (one of the 256 coverage values; all 256 together are the complete statement)"
pm_over_in_at!(k_pm_over_in_049, 49);
// @ob id=K.pm_over_in_050 props=C18 kind=complete tier=thorough timeout=900 fns=sw_composite::over_in
// @+ desc="over_in(s,d,50) keeps r,g,b <= a for all premultiplied s,d (one of the 256 coverage values; all 256 together are the complete statement)"
pm_over_in_at!(k_pm_over_in_050, 50);
// @ob id=K.pm_over_in_051 props=C18 kind=complete tier=thorough timeout=900 fns=sw_composite::over_in
// @+ desc="over_in(s,d,51) keeps r,g,b <= a for all premultiplied s,d (one of the 256 coverage values; all 256 together are the complete statement)"
pm_over_in_at!(k_pm_over_in_051, 51);
// @ob id=K.pm_over_in_052 props=C18 kind=complete tier=thorough timeout=900 fns=sw_composite::over_in
// @+ desc="over_in(s,d,52) keeps r,g,b <= a for all premultiplied s,d (one of the 256 coverage values; all 256 together are the complete statement)"
pm_over_in_at!(k_pm_over_in_052, 52);
// @ob id=K.pm_over_in_053 props=C18 kind=complete tier=thorough timeout=900 fns=sw_composite::over_in
// @+ desc="over_in(s,d,53) keeps r,g,b <= a for all premultiplied s,d (one of the 256 coverage values; all 256 together are the complete statement)"
pm_over_in_at!(k_pm_over_in_053, 53);
// @ob id=K.pm_over_in_054 props=C18 kind=complete tier=thorough timeout=900 fns=sw_composite::over_in
// @+ desc="over_in(s,d,54) keeps r,g,b <= a for all premultiplied s,d (one of the 256 coverage values; all 256 together are the complete statement)"
pm_over_in_at!(k_pm_over_in_054, 54);
// @ob id=K.pm_over_in_055 props=C18 kind=complete tier=thorough timeout=900 fns=sw_composite::over_in
// @+ desc="over_in(s,d,55) keeps r,g,b <= a for all premultiplied s,d (one of the 256 coverage values; all 256 together are the complete statement)"
pm_over_in_at!(k_pm_over_in_055, 55);
// @ob id=K.pm_over_in_056 props=C18 kind=complete tier=thorough timeout=900 fns=sw_composite::over_in
// @+ desc="over_in(s,d,56) keeps r,g,b <= a for all premultiplied s,d (one of the 256 coverage values; all 256 together are the complete statement)"
pm_over_in_at!(k_pm_over_in_056, 56);
// @ob id=K.pm_over_in_057 props=C18 kind=complete tier=thorough timeout=900 fns=sw_composite::over_in
// @+ desc="over_in(s,d,57) keeps r,g,b <= a for all premultiplied s,d (one of the 256 coverage values; all 256 together are the complete statement)"
pm_over_in_at!(k_pm_over_in_057, 57);
// @ob id=K.pm_over_in_058 props=C18 kind=complete tier=thorough timeout=900 fns=sw_composite::over_in
// @+ desc="over_in(s,d,58) keeps r,g,b <= a for all premultiplied s,d (one of the 256 coverage values; all 256 together are the complete statement)"
pm_over_in_at!(k_pm_over_in_058, 58);
// @ob id=K.pm_over_in_059 props=C18 kind=complete tier=thorough timeout=900 fns=sw_composite::over_in
// @+ desc="over_in(s,d,59) keeps r,g,b <= a for all premultiplied s,d (one of the 256 coverage values; all 256 together are the complete statement)"
pm_over_in_at!(k_pm_over_in_059, 59);
// @ob id=K.pm_over_in_060 props=C18 kind=complete tier=thorough timeout=900 fns=sw_composite::over_in
// @+ desc="over_in(s,d,60) keeps r,g,b <= a for all premultiplied s,d (one of the 256 coverage values; all 256 together are the complete statement)"
pm_over_in_at!(k_pm_over_in_060, 60);
// @ob id=K.pm_over_in_061 props=C18 kind=complete tier=thorough timeout=900 fns=sw_composite::over_in
// @+ desc="over_in(s,d,61) keeps r,g,b <= a for all premultiplied s,d (one of the 256 coverage values; all 256 together are the complete statement)"
pm_over_in_at!(k_pm_over_in_061, 61);
// @ob id=K.pm_over_in_062 props=C18 kind=complete tier=thorough timeout=900 fns=sw_composite::over_in
// @+ desc="over_in(s,d,62) keeps r,g,b <= a for all premultiplied s,d (one of the 256 coverage values; all 256 together are the complete statement)"
pm_over_in_at!(k_pm_over_in_062, 62);
// @ob id=K.pm_over_in_063 props=C18 kind=complete tier=thorough timeout=900 fns=sw_composite::over_in
// @+ desc="over_in(s,d,63) keeps r,g,b <= a for all premultiplied s,d (one of the 256 coverage values; all 256 together are the complete statement)"
pm_over_in_at!(k_pm_over_in_063, 63);
// @ob id=K.pm_over_in_064 props=C18 kind=complete tier=thorough timeout=900 fns=sw_composite::over_in
// @+ desc="over_in(s,d,64) keeps r,g,b <= a for all premultiplied s,d (one of the 256 coverage values; all 256 together are the complete statement)"
pm_over_in_at!(k_pm_over_in_064, 64);
// @ob id=K.pm_over_in_065 props=C18 kind=complete tier=thorough timeout=900 fns=sw_composite::over_in
// @+ desc="over_in(s,d,65) keeps r,g,b <= a for all premultiplied s,d (one of the 256 coverage values; all 256 together are the complete statement)"
pm_over_in_at!(k_pm_over_in_065, 65);
// @ob id=K.pm_over_in_066 props=C18 kind=complete tier=thorough timeout=900 fns=sw_composite::over_in
// @+ desc="over_in(s,d,66) keeps r,g,b <= a for all premultiplied s,d (one of the 256 coverage values; all 256 together are the complete statement)"
pm_over_in_at!(k_pm_over_in_066, 66);
// @ob id=K.pm_over_in_067 props=C18 kind=complete tier=thorough timeout=900 fns=sw_composite::over_in
// @+ desc="over_in(s,d,67) keeps r,g,b <= a for all premultiplied s,d (one of the 256 coverage values; all 256 together are the complete statement)"
pm_over_in_at!(k_pm_over_in_067, 67);
// @ob id=K.pm_over_in_068 props=C18 kind=complete tier=thorough timeout=900 fns=sw_composite::over_in
// @+ desc="over_in(s,d,68) keeps r,g,b <= a for all premultiplied s,d (one of the 256 coverage values; all 256 together are the complete statement)"
pm_over_in_at!(k_pm_over_in_068, 68);
// @ob id=K.pm_over_in_069 props=C18 kind=complete tier=thorough timeout=900 fns=sw_composite::over_in
// @+ desc="over_in(s,d,69) keeps r,g,b <= a for all premultiplied s,d (one of the 256 coverage values; all 256 together are the complete statement)"
pm_over_in_at!(k_pm_over_in_069, 69);
// @ob id=K.pm_over_in_070 props=C18 kind=complete tier=thorough timeout=900 fns=sw_composite::over_in
// @+ desc="over_in(s,d,70) keeps r,g,b <= a for all premultiplied s,d (one of the 256 coverage values; all 256 together are the complete statement)"
pm_over_in_at!(k_pm_over_in_070, 70);
// @ob id=K.pm_over_in_071 props=C18 kind=complete tier=thorough timeout=900 fns=sw_composite::over_in
// @+ desc="over_in(s,d,71) keeps r,g,b <= a for all premultiplied s,d (one of the 256 coverage values; all 256 together are the complete statement)"
pm_over_in_at!(k_pm_over_in_071, 71);
// @ob id=K.pm_over_in_072 props=C18 kind=complete tier=thorough timeout=900 fns=sw_composite::over_in
// @+ desc="over_in(s,d,72) keeps r,g,b <= a for all premultiplied s,d (one of the 256 coverage values; all 256 together are the complete statement)"
pm_over_in_at!(k_pm_over_in_072, 72);
// @ob id=K.pm_over_in_073 props=C18 kind=complete tier=thorough timeout=900 fns=sw_composite::over_in
// @+ desc="over_in(s,d,73) keeps r,g,b <= a for all premultiplied s,d (one of the 256 coverage values; all 256 together are the complete statement)"
pm_over_in_at!(k_pm_over_in_073, 73);
// @ob id=K.pm_over_in_074 props=C18 kind=complete tier=thorough timeout=900 fns=sw_composite::over_in
// @+ desc="over_in(s,d,74) keeps r,g,b <= a for all premultiplied s,d (one of the 256 coverage values; all 256 together are the complete statement)"
pm_over_in_at!(k_pm_over_in_074, 74);
// @ob id=K.pm_over_in_075 props=C18 kind=complete tier=thorough timeout=900 fns=sw_composite::over_in
// @+ desc="over_in(s,d,75) keeps r,g,b <= a for all premultiplied s,d (one of the 256 coverage values; all 256 together are the complete statement)"
pm_over_in_at!(k_pm_over_in_075, 75);
// @ob id=K.pm_over_in_076 props=C18 kind=complete tier=thorough timeout=900 fns=sw_composite::over_in
// @+ desc="over_in(s,d,76) keeps r,g,b <= a for all premultiplied s,d (one of the 256 coverage values; all 256 together are the complete statement)"
pm_over_in_at!(k_pm_over_in_076, 76);
// @ob id=K.pm_over_in_077 props=C18 kind=complete tier=thorough timeout=900 fns=sw_composite::over_in
// @+ desc="over_in(s,d,77) keeps r,g,b <= a for all premultiplied s,d (one of the 256 coverage values; all 256 together are the complete statement)"
pm_over_in_at!(k_pm_over_in_077, 77);
// @ob id=K.pm_over_in_078 props=C18 kind=complete tier=thorough timeout=900 fns=sw_composite::over_in
// @+ desc="over_in(s,d,78) keeps r,g,b <= a for all premultiplied s,d (one of the 256 coverage values; all 256 together are the complete statement)"
pm_over_in_at!(k_pm_over_in_078, 78);
// @ob id=K.pm_over_in_079 props=C18 kind=complete tier=thorough timeout=900 fns=sw_composite::over_in
// @+ desc="over_in(s,d,79) keeps r,g,b <= a for all premultiplied s,d (one of the 256 coverage values; all 256 together are the complete statement)"
pm_over_in_at!(k_pm_over_in_079, 79);
// @ob id=K.pm_over_in_080 props=C18 kind=complete tier=thorough timeout=900 fns=sw_composite::over_in
// @+ desc="over_in(s,d,80) keeps r,g,b <= a for all premultiplied s,d (one of the 256 coverage values; all 256 together are the complete statement)"
pm_over_in_at!(k_pm_over_in_080, 80);
// @ob id=K.pm_over_in_081 props=C18 kind=complete tier=thorough timeout=900 fns=sw_composite::over_in
// @+ desc="over_in(s,d,81) keeps r,g,b <= a for all premultiplied s,d (one of the 256 coverage values; all 256 together are the complete statement)"
pm_over_in_at!(k_pm_over_in_081, 81);
// @ob id=K.pm_over_in_082 props=C18 kind=complete tier=thorough timeout=900 fns=sw_composite::over_in
// @+ desc="over_in(s,d,82) keeps r,g,b <= a for all premultiplied s,d (one of the 256 coverage values; all 256 together are the complete statement)"
pm_over_in_at!(k_pm_over_in_082, 82);
// @ob id=K.pm_over_in_083 props=C18 kind=complete tier=thorough timeout=900 fns=sw_composite::over_in
// @+ desc="over_in(s,d,83) keeps r,g,b <= a for all premultiplied s,d (one of the 256 coverage values; all 256 together are the complete statement)"
pm_over_in_at!(k_pm_over_in_083, 83);
// @ob id=K.pm_over_in_084 props=C18 kind=complete tier=thorough timeout=900 fns=sw_composite::over_in
// @+ desc="over_in(s,d,84) keeps r,g,b <= a for all premultiplied s,d (one of the 256 coverage values; all 256 together are the complete statement)"
pm_over_in_at!(k_pm_over_in_084, 84);
// @ob id=K.pm_over_in_085 props=C18 kind=complete tier=thorough timeout=900 fns=sw_composite::over_in
// @+ desc="over_in(s,d,85) keeps r,g,b <= a for all premultiplied s,d (one of the 256 coverage values; all 256 together are the complete statement)"
pm_over_in_at!(k_pm_over_in_085, 85);
// @ob id=K.pm_over_in_086 props=C18 kind=complete tier=thorough timeout=900 fns=sw_composite::over_in
// @+ desc="over_in(s,d,86) keeps r,g,b <= a for all premultiplied s,d (one of the 256 coverage values; all 256 together are the complete statement)"
pm_over_in_at!(k_pm_over_in_086, 86);
// @ob id=K.pm_over_in_087 props=C18 kind=complete tier=thorough timeout=900 fns=sw_composite::over_in
// @+ desc="over_in(s,d,87) keeps r,g,b <= a for all premultiplied s,d (one of the 256 coverage values; all 256 together are the complete statement)"
pm_over_in_at!(k_pm_over_in_087, 87);
// @ob id=K.pm_over_in_088 props=C18 kind=complete tier=thorough timeout=900 fns=sw_composite::over_in
// @+ desc="over_in(s,d,88) keeps r,g,b <= a for all premultiplied s,d (one of the 256 coverage values; all 256 together are the complete statement)"
pm_over_in_at!(k_pm_over_in_088, 88);
// @ob id=K.pm_over_in_089 props=C18 kind=complete tier=thorough timeout=900 fns=sw_composite::over_in
// @+ desc="over_in(s,d,89) keeps r,g,b <= a for all premultiplied s,d (one of the 256 coverage values; all 256 together are the complete statement)"
pm_over_in_at!(k_pm_over_in_089, 89);
// @ob id=K.pm_over_in_090 props=C18 kind=complete tier=thorough timeout=900 fns=sw_composite::over_in
// @+ desc="over_in(s,d,90) keeps r,g,b <= a for all premultiplied s,d (one of the 256 coverage values; all 256 together are the complete statement)"
pm_over_in_at!(k_pm_over_in_090, 90);
// @ob id=K.pm_over_in_091 props=C18 kind=complete tier=thorough timeout=900 fns=sw_composite::over_in
// @+ desc="over_in(s,d,91) keeps r,g,b <= a for all premultiplied s,d (one of the 256 coverage values; all 256 together are the complete statement)"
pm_over_in_at!(k_pm_over_in_091, 91);
// @ob id=K.pm_over_in_092 props=C18 kind=complete tier=thorough timeout=900 fns=sw_composite::over_in
// @+ desc="over_in(s,d,92) keeps r,g,b <= a for all premultiplied s,d (one of the 256 coverage values; all 256 together are the complete statement)"
pm_over_in_at!(k_pm_over_in_092, 92);
// @ob id=K.pm_over_in_093 props=C18 kind=complete tier=thorough timeout=900 fns=sw_composite::over_in
// @+ desc="over_in(s,d,93) keeps r,g,b <= a for all premultiplied s,d (one of the 256 coverage values; all 256 together are the complete statement)"
pm_over_in_at!(k_pm_over_in_093, 93);
// @ob id=K.pm_over_in_094 props=C18 kind=complete tier=thorough timeout=900 fns=sw_composite::over_in
// @+ desc="over_in(s,d,94) keeps r,g,b <= a for all premultiplied s,d (one of the 256 coverage values; all 256 together are the complete statement)"
pm_over_in_at!(k_pm_over_in_094, 94);
// @ob id=K.pm_over_in_095 props=C18 kind=complete tier=thorough timeout=900 fns=sw_composite::over_in
// @+ desc="over_in(s,d,95) keeps r,g,b <= a for all premultiplied s,d (one of the 256 coverage values; all 256 together are the complete statement)"
pm_over_in_at!(k_pm_over_in_095, 95);
// @ob id=K.pm_over_in_096 props=C18 kind=complete tier=thorough timeout=900 fns=sw_composite::over_in
// @+ desc="over_in(s,d,96) keeps r,g,b <= a for all premultiplied s,d (one of the 256 coverage values; all 256 together are the complete statement)"
pm_over_in_at!(k_pm_over_in_096, 96);
// @ob id=K.pm_over_in_097 props=C18 kind=complete tier=thorough timeout=900 fns=sw_composite::over_in
// @+ desc="over_in(s,d,97) keeps r,g,b <= a for all premultiplied s,d (one of the 256 coverage values; all 256 together are the complete statement)"
pm_over_in_at!(k_pm_over_in_097, 97);
// @ob id=K.pm_over_in_098 props=C18 kind=complete tier=thorough timeout=900 fns=sw_composite::over_in
// @+ desc="over_in(s,d,98) keeps r,g,b <= a for all premultiplied s,d (one of the 256 coverage values; all 256 together are the complete statement)"
pm_over_in_at!(k_pm_over_in_098, 98);
// @ob id=K.pm_over_in_099 props=C18 kind=complete tier=thorough timeout=900 fns=sw_composite::over_in
// @+ desc="over_in(s,d,99) keeps r,g,b <= a for all premultiplied s,d (one of the 256 coverage values; all 256 together are the complete statement)"
pm_over_in_at!(k_pm_over_in_099, 99);
// @ob id=K.pm_over_in_100 props=C18 kind=complete tier=thorough timeout=900 fns=sw_composite::over_in
// @+ desc="over_in(s,d,100) keeps r,g,b <= a for all premultiplied s,d (one of the 256 coverage values; all 256 together are the complete statement)"
pm_over_in_at!(k_pm_over_in_100, 100);
// @ob id=K.pm_over_in_101 props=C18 kind=complete tier=thorough timeout=900 fns=sw_composite::over_in
// @+ desc="over_in(s,d,101) keeps r,g,b <= a for all premultiplied s,d (one of the 256 coverage values; all 256 together are the complete statement)"
pm_over_in_at!(k_pm_over_in_101, 101);
// @ob id=K.pm_over_in_102 props=C18 kind=complete tier=thorough timeout=900 fns=sw_composite::over_in
// @+ desc="over_in(s,d,102) keeps r,g,b <= a for all premultiplied s,d (one of the 256 coverage values; all 256 together are the complete statement)"
pm_over_in_at!(k_pm_over_in_102, 102);
// @ob id=K.pm_over_in_103 props=C18 kind=complete tier=thorough timeout=900 fns=sw_composite::over_in
// @+ desc="over_in(s,d,103) keeps r,g,b <= a for all premultiplied s,d (one of the 256 coverage values; all 256 together are the complete statement)"
pm_over_in_at!(k_pm_over_in_103, 103);
// @ob id=K.pm_over_in_104 props=C18 kind=complete tier=thorough timeout=900 fns=sw_composite::over_in
// @+ desc="over_in(s,d,104) keeps r,g,b <= a for all premultiplied s,d (one of the 256 coverage values; all 256 together are the complete statement)"
pm_over_in_at!(k_pm_over_in_104, 104);
// @ob id=K.pm_over_in_105 props=C18 kind=complete tier=thorough timeout=900 fns=sw_composite::over_in
// @+ desc="over_in(s,d,105) keeps r,g,b <= a for all premultiplied s,d (one of the 256 coverage values; all 256 together are the complete statement)"
pm_over_in_at!(k_pm_over_in_105, 105);
// @ob id=K.pm_over_in_106 props=C18 kind=complete tier=thorough timeout=900 fns=sw_composite::over_in
// @+ desc="over_in(s,d,106) keeps r,g,b <= a for all premultiplied s,d (one of the 256 coverage values; all 256 together are the complete statement)"
pm_over_in_at!(k_pm_over_in_106, 106);
// @ob id=K.pm_over_in_107 props=C18 kind=complete tier=thorough timeout=900 fns=sw_composite::over_in
// @+ desc="over_in(s,d,107) keeps r,g,b <= a for all premultiplied s,d (one of the 256 coverage values; all 256 together are the complete statement)"
pm_over_in_at!(k_pm_over_in_107, 107);
// @ob id=K.pm_over_in_108 props=C18 kind=complete tier=thorough timeout=900 fns=sw_composite::over_in
// @+ desc="over_in(s,d,108) keeps r,g,b <= a for all premultiplied s,d (one of the 256 coverage values; all 256 together are the complete statement)"
pm_over_in_at!(k_pm_over_in_108, 108);
// @ob id=K.pm_over_in_109 props=C18 kind=complete tier=thorough timeout=900 fns=sw_composite::over_in
// @+ desc="over_in(s,d,109) keeps r,g,b <= a for all premultiplied s,d (one of the 256 coverage values; all 256 together are the complete statement)"
pm_over_in_at!(k_pm_over_in_109, 109);
// @ob id=K.pm_over_in_110 props=C18 kind=complete tier=thorough timeout=900 fns=sw_composite::over_in
// @+ desc="over_in(s,d,110) keeps r,g,b <= a for all premultiplied s,d (one of the 256 coverage values; all 256 together are the complete statement)"
pm_over_in_at!(k_pm_over_in_110, 110);
// @ob id=K.pm_over_in_111 props=C18 kind=complete tier=thorough timeout=900 fns=sw_composite::over_in
// @+ desc="over_in(s,d,111) keeps r,g,b <= a for all premultiplied s,d (one of the 256 coverage values; all 256 together are the complete statement)"
pm_over_in_at!(k_pm_over_in_111, 111);
// @ob id=K.pm_over_in_112 props=C18 kind=complete tier=thorough timeout=900 fns=sw_composite::over_in
// @+ desc="over_in(s,d,112) keeps r,g,b <= a for all premultiplied s,d (one of the 256 coverage values; all 256 together are the complete statement)"
pm_over_in_at!(k_pm_over_in_112, 112);
// @ob id=K.pm_over_in_113 props=C18 kind=complete tier=thorough timeout=900 fns=sw_composite::over_in
// @+ desc="over_in(s,d,113) keeps r,g,b <= a for all premultiplied s,d (one of the 256 coverage values; all 256 together are the complete statement)"
pm_over_in_at!(k_pm_over_in_113, 113);
// @ob id=K.pm_over_in_114 props=C18 kind=complete tier=thorough timeout=900 fns=sw_composite::over_in
// @+ desc="over_in(s,d,114) keeps r,g,b <= a for all premultiplied s,d (one of the 256 coverage values; all 256 together are the complete statement)"
pm_over_in_at!(k_pm_over_in_114, 114);
// @ob id=K.pm_over_in_115 props=C18 kind=complete tier=thorough timeout=900 fns=sw_composite::over_in
// @+ desc="over_in(s,d,115) keeps r,g,b <= a for all premultiplied s,d (one of the 256 coverage values; all 256 together are the complete statement)"
pm_over_in_at!(k_pm_over_in_115, 115);
// @ob id=K.pm_over_in_116 props=C18 kind=complete tier=thorough timeout=900 fns=sw_composite::over_in
// @+ desc="over_in(s,d,116) keeps r,g,b <= a for all premultiplied s,d (one of the 256 coverage values; all 256 together are the complete statement)"
pm_over_in_at!(k_pm_over_in_116, 116);
// @ob id=K.pm_over_in_117 props=C18 kind=complete tier=thorough timeout=900 fns=sw_composite::over_in
// @+ desc="over_in(s,d,117) keeps r,g,b <= a for all premultiplied s,d (one of the 256 coverage values; all 256 together are the complete statement)"
pm_over_in_at!(k_pm_over_in_117, 117);
// @ob id=K.pm_over_in_118 props=C18 kind=complete tier=thorough timeout=900 fns=sw_composite::over_in
// @+ desc="over_in(s,d,118) keeps r,g,b <= a for all premultiplied s,d (one of the 256 coverage values; all 256 together are the complete statement)"
pm_over_in_at!(k_pm_over_in_118, 118);
// @ob id=K.pm_over_in_119 props=C18 kind=complete tier=thorough timeout=900 fns=sw_composite::over_in
// @+ desc="over_in(s,d,119) keeps r,g,b <= a for all premultiplied s,d (one of the 256 coverage values; all 256 together are the complete statement)"
pm_over_in_at!(k_pm_over_in_119, 119);
// @ob id=K.pm_over_in_120 props=C18 kind=complete tier=thorough timeout=900 fns=sw_composite::over_in
// @+ desc="over_in(s,d,120) keeps r,g,b <= a for all premultiplied s,d (one of the 256 coverage values; all 256 together are the complete statement)"
pm_over_in_at!(k_pm_over_in_120, 120);
// @ob id=K.pm_over_in_121 props=C18 kind=complete tier=thorough timeout=900 fns=sw_composite::over_in
// @+ desc="over_in(s,d,121) keeps r,g,b <= a for all premultiplied s,d (one of the 256 coverage values; all 256 together are the complete statement)"
pm_over_in_at!(k_pm_over_in_121, 121);
// @ob id=K.pm_over_in_122 props=C18 kind=complete tier=thorough timeout=900 fns=sw_composite::over_in
// @+ desc="over_in(s,d,122) keeps r,g,b <= a for all premultiplied s,d (one of the 256 coverage values; all 256 together are the complete statement)"
pm_over_in_at!(k_pm_over_in_122, 122);
// @ob id=K.pm_over_in_123 props=C18 kind=complete tier=thorough timeout=900 fns=sw_composite::over_in
// @+ desc="over_in(s,d,123) keeps r,g,b <= a for all premultiplied s,d (one of the 256 coverage values; all 256 together are the complete statement)"
pm_over_in_at!(k_pm_over_in_123, 123);
// @ob id=K.pm_over_in_124 props=C18 kind=complete tier=thorough timeout=900 fns=sw_composite::over_in
// @+ desc="over_in(s,d,124) keeps r,g,b <= a for all premultiplied s,d (one of the 256 coverage values; all 256 together are the complete statement)"
pm_over_in_at!(k_pm_over_in_124, 124);
// @ob id=K.pm_over_in_125 props=C18 kind=complete tier=thorough timeout=900 fns=sw_composite::over_in
// @+ desc="over_in(s,d,125) keeps r,g,b <= a for all premultiplied s,d (one of the 256 coverage values; all 256 together are the complete statement)"
pm_over_in_at!(k_pm_over_in_125, 125);
// @ob id=K.pm_over_in_126 props=C18 kind=complete tier=thorough timeout=900 fns=sw_composite::over_in
// @+ desc="over_in(s,d,126) keeps r,g,b <= a for all premultiplied s,d (one of the 256 coverage values; all 256 together are the complete statement)"
pm_over_in_at!(k_pm_over_in_126, 126);
// @ob id=K.pm_over_in_127 props=C18 kind=complete tier=quick timeout=900 fns=sw_composite::over_in
// @+ desc="over_in(s,d,127) keeps r,g,b <= a for all premultiplied s,d (one of the 256 coverage values; all 256 together are the complete statement)"
pm_over_in_at!(k_pm_over_in_127, 127);
// @ob id=K.pm_over_in_128 props=C18 kind=complete tier=quick timeout=900 fns=sw_composite::over_in
// @+ desc="over_in(s,d,128) keeps r,g,b <= a for all premultiplied s,d (one of the 256 coverage values; all 256 together are the complete statement)"
pm_over_in_at!(k_pm_over_in_128, 128);
// @ob id=K.pm_over_in_129 props=C18 kind=complete tier=thorough timeout=900 fns=sw_composite::over_in
// @+ desc="over_in(s,d,129) keeps r,g,b <= a for all premultiplied s,d (one of the 256 coverage values; all 256 together are the complete statement)"
pm_over_in_at!(k_pm_over_in_129, 129);
// @ob id=K.pm_over_in_130 props=C18 kind=complete tier=thorough timeout=900 fns=sw_composite::over_in
// @+ desc="over_in(s,d,130) keeps r,g,b <= a for all premultiplied s,d (one of the 256 coverage values; all 256 together are the complete statement)"
pm_over_in_at!(k_pm_over_in_130, 130);
// @ob id=K.pm_over_in_131 props=C18 kind=complete tier=thorough timeout=900 fns=sw_composite::over_in
// @+ desc="over_in(s,d,131) keeps r,g,b <= a for all premultiplied s,d (one of the 256 coverage values; all 256 together are the complete statement)"
pm_over_in_at!(k_pm_over_in_131, 131);
// @ob id=K.pm_over_in_132 props=C18 kind=complete tier=thorough timeout=900 fns=sw_composite::over_in
// @+ desc="over_in(s,d,132) keeps r,g,b <= a for all premultiplied s,d (one of the 256 coverage values; all 256 together are the complete statement)"
pm_over_in_at!(k_pm_over_in_132, 132);
// @ob id=K.pm_over_in_133 props=C18 kind=complete tier=thorough timeout=900 fns=sw_composite::over_in
// @+ desc="over_in(s,d,133) keeps r,g,b <= a for all premultiplied s,d (one of the 256 coverage values; all 256 together are the complete statement)"
pm_over_in_at!(k_pm_over_in_133, 133);
// @ob id=K.pm_over_in_134 props=C18 kind=complete tier=thorough timeout=900 fns=sw_composite::over_in
// @+ desc="over_in(s,d,134) keeps r,g,b <= a for all premultiplied s,d (one of the 256 coverage values; all 256 together are the complete statement)"
pm_over_in_at!(k_pm_over_in_134, 134);
// @ob id=K.pm_over_in_135 props=C18 kind=complete tier=thorough timeout=900 fns=sw_composite::over_in
// @+ desc="over_in(s,d,135) keeps r,g,b <= a for all premultiplied s,d (one of the 256 coverage values; all 256 together are the complete statement)"
pm_over_in_at!(k_pm_over_in_135, 135);
// @ob id=K.pm_over_in_136 props=C18 kind=complete tier=thorough timeout=900 fns=sw_composite::over_in
// @+ desc="over_in(s,d,136) keeps r,g,b <= a for all premultiplied s,d (one of the 256 coverage values; all 256 together are the complete statement)"
pm_over_in_at!(k_pm_over_in_136, 136);
// @ob id=K.pm_over_in_137 props=C18 kind=complete tier=thorough timeout=900 fns=sw_composite::over_in
// @+ desc="over_in(s,d,137) keeps r,g,b <= a for all premultiplied s,d (one of the 256 coverage values; all 256 together are the complete statement)"
pm_over_in_at!(k_pm_over_in_137, 137);
// @ob id=K.pm_over_in_138 props=C18 kind=complete tier=thorough timeout=900 fns=sw_composite::over_in
// @+ desc="over_in(s,d,138) keeps r,g,b <= a for all premultiplied s,d (one of the 256 coverage values; all 256 together are the complete statement)"
pm_over_in_at!(k_pm_over_in_138, 138);
// @ob id=K.pm_over_in_139 props=C18 kind=complete tier=thorough timeout=900 fns=sw_composite::over_in
// @+ desc="over_in(s,d,139) keeps r,g,b <= a for all premultiplied s,d (one of the 256 coverage values; all 256 together are the complete statement)"
pm_over_in_at!(k_pm_over_in_139, 139);
// @ob id=K.pm_over_in_140 props=C18 kind=complete tier=thorough timeout=900 fns=sw_composite::over_in
// @+ desc="over_in(s,d,140) keeps r,g,b <= a for all premultiplied s,d (one of the 256 coverage values; all 256 together are the complete statement)"
pm_over_in_at!(k_pm_over_in_140, 140);
// @ob id=K.pm_over_in_141 props=C18 kind=complete tier=thorough timeout=900 fns=sw_composite::over_in
// @+ desc="over_in(s,d,141) keeps r,g,b <= a for all premultiplied s,d (one of the 256 coverage values; all 256 together are the complete statement)"
pm_over_in_at!(k_pm_over_in_141, 141);
// @ob id=K.pm_over_in_142 props=C18 kind=complete tier=thorough timeout=900 fns=sw_composite::over_in
// @+ desc="over_in(s,d,142) keeps r,g,b <= a for all premultiplied s,d (one of the 256 coverage values; all 256 together are the complete statement)"
pm_over_in_at!(k_pm_over_in_142, 142);
// @ob id=K.pm_over_in_143 props=C18 kind=complete tier=thorough timeout=900 fns=sw_composite::over_in
// @+ desc="over_in(s,d,143) keeps r,g,b <= a for all premultiplied s,d (one of the 256 coverage values; all 256 together are the complete statement)"
pm_over_in_at!(k_pm_over_in_143, 143);
// @ob id=K.pm_over_in_144 props=C18 kind=complete tier=thorough timeout=900 fns=sw_composite::over_in
// @+ desc="over_in(s,d,144) keeps r,g,b <= a for all premultiplied s,d (one of the 256 coverage values; all 256 together are the complete statement)"
pm_over_in_at!(k_pm_over_in_144, 144);
// @ob id=K.pm_over_in_145 props=C18 kind=complete tier=thorough timeout=900 fns=sw_composite::over_in
// @+ desc="over_in(s,d,145) keeps r,g,b <= a for all premultiplied s,d (one of the 256 coverage values; all 256 together are the complete statement)"
pm_over_in_at!(k_pm_over_in_145, 145);
// @ob id=K.pm_over_in_146 props=C18 kind=complete tier=thorough timeout=900 fns=sw_composite::over_in
// @+ desc="over_in(s,d,146) keeps r,g,b <= a for all premultiplied s,d (one of the 256 coverage values; all 256 together are the complete statement)"
pm_over_in_at!(k_pm_over_in_146, 146);
// @ob id=K.pm_over_in_147 props=C18 kind=complete tier=thorough timeout=900 fns=sw_composite::over_in
// @+ desc="over_in(s,d,147) keeps r,g,b <= a for all premultiplied s,d (one of the 256 coverage values; all 256 together are the complete statement)"
pm_over_in_at!(k_pm_over_in_147, 147);
// @ob id=K.pm_over_in_148 props=C18 kind=complete tier=thorough timeout=900 fns=sw_composite::over_in
// @+ desc="over_in(s,d,148) keeps r,g,b <= a for all premultiplied s,d (one of the 256 coverage values; all 256 together are the complete statement)"
pm_over_in_at!(k_pm_over_in_148, 148);
// @ob id=K.pm_over_in_149 props=C18 kind=complete tier=thorough timeout=900 fns=sw_composite::over_in
// @+ desc="over_in(s,d,149) keeps r,g,b <= a for all premultiplied s,d (one of the 256 coverage values; all 256 together are the complete statement)"
pm_over_in_at!(k_pm_over_in_149, 149);
// @ob id=K.pm_over_in_150 props=C18 kind=complete tier=thorough timeout=900 fns=sw_composite::over_in
// @+ desc="over_in(s,d,150) keeps r,g,b <= a for all premultiplied s,d (one of the 256 coverage values; all 256 together are the complete statement)"
pm_over_in_at!(k_pm_over_in_150, 150);
// @ob id=K.pm_over_in_151 props=C18 kind=complete tier=thorough timeout=900 fns=sw_composite::over_in
// @+ desc="over_in(s,d,151) keeps r,g,b <= a for all premultiplied s,d (one of the 256 coverage values; all 256 together are the complete statement)"
pm_over_in_at!(k_pm_over_in_151, 151);
// @ob id=K.pm_over_in_152 props=C18 kind=complete tier=thorough timeout=900 fns=sw_composite::over_in
// @+ desc="over_in(s,d,152) keeps r,g,b <= a for all premultiplied s,d (one of the 256 coverage values; all 256 together are the complete statement)"
pm_over_in_at!(k_pm_over_in_152, 152);
// @ob id=K.pm_over_in_153 props=C18 kind=complete tier=thorough timeout=900 fns=sw_composite::over_in
// @+ desc="over_in(s,d,153) keeps r,g,b <= a for all premultiplied s,d (one of the 256 coverage values; all 256 together are the complete statement)"
pm_over_in_at!(k_pm_over_in_153, 153);
// @ob id=K.pm_over_in_154 props=C18 kind=complete tier=thorough timeout=900 fns=sw_composite::over_in
// @+ desc="over_in(s,d,154) keeps r,g,b <= a for all premultiplied s,d (one of the 256 coverage values; all 256 together are the complete statement)"
pm_over_in_at!(k_pm_over_in_154, 154);
// @ob id=K.pm_over_in_155 props=C18 kind=complete tier=thorough timeout=900 fns=sw_composite::over_in
// @+ desc="over_in(s,d,155) keeps r,g,b <= a for all premultiplied s,d (one of the 256 coverage values; all 256 together are the complete statement)"
pm_over_in_at!(k_pm_over_in_155, 155);
// @ob id=K.pm_over_in_156 props=C18 kind=complete tier=thorough timeout=900 fns=sw_composite::over_in
// @+ desc="over_in(s,d,156) keeps r,g,b <= a for all premultiplied s,d (one of the 256 coverage values; all 256 together are the complete statement)"
pm_over_in_at!(k_pm_over_in_156, 156);
// @ob id=K.pm_over_in_157 props=C18 kind=complete tier=thorough timeout=900 fns=sw_composite::over_in
// @+ desc="over_in(s,d,157) keeps r,g,b <= a for all premultiplied s,d (one of the 256 coverage values; all 256 together are the complete statement)"
pm_over_in_at!(k_pm_over_in_157, 157);
// @ob id=K.pm_over_in_158 props=C18 kind=complete tier=thorough timeout=900 fns=sw_composite::over_in
// @+ desc="over_in(s,d,158) keeps r,g,b <= a for all premultiplied s,d (one of the 256 coverage values; all 256 together are the complete statement)"
pm_over_in_at!(k_pm_over_in_158, 158);
// @ob id=K.pm_over_in_159 props=C18 kind=complete tier=thorough timeout=900 fns=sw_composite::over_in
// @+ desc="over_in(s,d,159) keeps r,g,b <= a for all premultiplied s,d (one of the 256 coverage values; all 256 together are the complete statement)"
pm_over_in_at!(k_pm_over_in_159, 159);
// @ob id=K.pm_over_in_160 props=C18 kind=complete tier=thorough timeout=900 fns=sw_composite::over_in
// @+ desc="over_in(s,d,160) keeps r,g,b <= a for all premultiplied s,d (one of the 256 coverage values; all 256 together are the complete statement)"
pm_over_in_at!(k_pm_over_in_160, 160);
// @ob id=K.pm_over_in_161 props=C18 kind=complete tier=thorough timeout=900 fns=sw_composite::over_in
// @+ desc="over_in(s,d,161) keeps r,g,b <= a for all premultiplied s,d (one of the 256 coverage values; all 256 together are the complete statement)"
pm_over_in_at!(k_pm_over_in_161, 161);
// @ob id=K.pm_over_in_162 props=C18 kind=complete tier=thorough timeout=900 fns=sw_composite::over_in
// @+ desc="over_in(s,d,162) keeps r,g,b <= a for all premultiplied s,d (one of the 256 coverage values; all 256 together are the complete statement)"
pm_over_in_at!(k_pm_over_in_162, 162);
// @ob id=K.pm_over_in_163 props=C18 kind=complete tier=thorough timeout=900 fns=sw_composite::over_in
// @+ desc="over_in(s,d,163) keeps r,g,b <= a for all premultiplied s,d (one of the 256 coverage values; all 256 together are the complete statement)"
pm_over_in_at!(k_pm_over_in_163, 163);
// @ob id=K.pm_over_in_164 props=C18 kind=complete tier=thorough timeout=900 fns=sw_composite::over_in
// @+ desc="over_in(s,d,164) keeps r,g,b <= a for all premultiplied s,d (one of the 256 coverage values; all 256 together are the complete statement)"
pm_over_in_at!(k_pm_over_in_164, 164);
// @ob id=K.pm_over_in_165 props=C18 kind=complete tier=thorough timeout=900 fns=sw_composite::over_in
// @+ desc="over_in(s,d,165) keeps r,g,b <= a for all premultiplied s,d (one of the 256 coverage values; all 256 together are the complete statement)"
pm_over_in_at!(k_pm_over_in_165, 165);
// @ob id=K.pm_over_in_166 props=C18 kind=complete tier=thorough timeout=900 fns=sw_composite::over_in
// @+ desc="over_in(s,d,166) keeps r,g,b <= a for all premultiplied s,d (one of the 256 coverage values; all 256 together are the complete statement)"
pm_over_in_at!(k_pm_over_in_166, 166);
// @ob id=K.pm_over_in_167 props=C18 kind=complete tier=thorough timeout=900 fns=sw_composite::over_in
// @+ desc="over_in(s,d,167) keeps r,g,b <= a for all premultiplied s,d (one of the 256 coverage values; all 256 together are the complete statement)"
pm_over_in_at!(k_pm_over_in_167, 167);
// @ob id=K.pm_over_in_168 props=C18 kind=complete tier=thorough timeout=900 fns=sw_composite::over_in
// @+ desc="over_in(s,d,168) keeps r,g,b <= a for all premultiplied s,d (one of the 256 coverage values; all 256 together are the complete statement)"
pm_over_in_at!(k_pm_over_in_168, 168);
// @ob id=K.pm_over_in_169 props=C18 kind=complete tier=thorough timeout=900 fns=sw_composite::over_in
// @+ desc="over_in(s,d,169) keeps r,g,b <= a for all premultiplied s,d (one of the 256 coverage values; all 256 together are the complete statement)"
pm_over_in_at!(k_pm_over_in_169, 169);
// @ob id=K.pm_over_in_170 props=C18 kind=complete tier=thorough timeout=900 fns=sw_composite::over_in
// @+ desc="over_in(s,d,170) keeps r,g,b <= a for all premultiplied s,d (one of the 256 coverage values; all 256 together are the complete statement)"
pm_over_in_at!(k_pm_over_in_170, 170);
// @ob id=K.pm_over_in_171 props=C18 kind=complete tier=thorough timeout=900 fns=sw_composite::over_in
// @+ desc="over_in(s,d,171) keeps r,g,b <= a for all premultiplied s,d (one of the 256 coverage values; all 256 together are the complete statement)"
pm_over_in_at!(k_pm_over_in_171, 171);
// @ob id=K.pm_over_in_172 props=C18 kind=complete tier=thorough timeout=900 fns=sw_composite::over_in
// @+ desc="over_in(s,d,172) keeps r,g,b <= a for all premultiplied s,d (one of the 256 coverage values; all 256 together are the complete statement)"
pm_over_in_at!(k_pm_over_in_172, 172);
// @ob id=K.pm_over_in_173 props=C18 kind=complete tier=thorough timeout=900 fns=sw_composite::over_in
// @+ desc="over_in(s,d,173) keeps r,g,b <= a for all premultiplied s,d (one of the 256 coverage values; all 256 together are the complete statement)"
pm_over_in_at!(k_pm_over_in_173, 173);
// @ob id=K.pm_over_in_174 props=C18 kind=complete tier=thorough timeout=900 fns=sw_composite::over_in
// @+ desc="over_in(s,d,174) keeps r,g,b <= a for all premultiplied s,d (one of the 256 coverage values; all 256 together are the complete statement)"
pm_over_in_at!(k_pm_over_in_174, 174);
// @ob id=K.pm_over_in_175 props=C18 kind=complete tier=thorough timeout=900 fns=sw_composite::over_in
// @+ desc="over_in(s,d,175) keeps r,g,b <= a for all premultiplied s,d (one of the 256 coverage values; all 256 together are the complete statement)"
pm_over_in_at!(k_pm_over_in_175, 175);
// @ob id=K.pm_over_in_176 props=C18 kind=complete tier=thorough timeout=900 fns=sw_composite::over_in
// @+ desc="over_in(s,d,176) keeps r,g,b <= a for all premultiplied s,d (one of the 256 coverage values; all 256 together are the complete statement)"
pm_over_in_at!(k_pm_over_in_176, 176);
// @ob id=K.pm_over_in_177 props=C18 kind=complete tier=thorough timeout=900 fns=sw_composite::over_in
// @+ desc="over_in(s,d,177) keeps r,g,b <= a for all premultiplied s,d (one of the 256 coverage values; all 256 together are the complete statement)"
pm_over_in_at!(k_pm_over_in_177, 177);
// @ob id=K.pm_over_in_178 props=C18 kind=complete tier=thorough timeout=900 fns=sw_composite::over_in
// @+ desc="over_in(s,d,178) keeps r,g,b <= a for all premultiplied s,d (one of the 256 coverage values; all 256 together are the complete statement)"
pm_over_in_at!(k_pm_over_in_178, 178);
// @ob id=K.pm_over_in_179 props=C18 kind=complete tier=thorough timeout=900 fns=sw_composite::over_in
// @+ desc="over_in(s,d,179) keeps r,g,b <= a for all premultiplied s,d (one of the 256 coverage values; all 256 together are the complete statement)"
pm_over_in_at!(k_pm_over_in_179, 179);
// @ob id=K.pm_over_in_180 props=C18 kind=complete tier=thorough timeout=900 fns=sw_composite::over_in
// @+ desc="over_in(s,d,180) keeps r,g,b <= a for all premultiplied s,d (one of the 256 coverage values; all 256 together are the complete statement)"
pm_over_in_at!(k_pm_over_in_180, 180);
// @ob id=K.pm_over_in_181 props=C18 kind=complete tier=thorough timeout=900 fns=sw_composite::over_in
// @+ desc="over_in(s,d,181) keeps r,g,b <= a for all premultiplied s,d (one of the 256 coverage values; all 256 together are the complete statement)"
pm_over_in_at!(k_pm_over_in_181, 181);
// @ob id=K.pm_over_in_182 props=C18 kind=complete tier=thorough timeout=900 fns=sw_composite::over_in
// @+ desc="over_in(s,d,182) keeps r,g,b <= a for all premultiplied s,d (one of the 256 coverage values; all 256 together are the complete statement)"
pm_over_in_at!(k_pm_over_in_182, 182);
// @ob id=K.pm_over_in_183 props=C18 kind=complete tier=thorough timeout=900 fns=sw_composite::over_in
// @+ desc="over_in(s,d,183) keeps r,g,b <= a for all premultiplied s,d (one of the 256 coverage values; all 256 together are the complete statement)"
pm_over_in_at!(k_pm_over_in_183, 183);
// @ob id=K.pm_over_in_184 props=C18 kind=complete tier=thorough timeout=900 fns=sw_composite::over_in
// @+ desc="over_in(s,d,184) keeps r,g,b <= a for all premultiplied s,d (one of the 256 coverage values; all 256 together are the complete statement)"
pm_over_in_at!(k_pm_over_in_184, 184);
// @ob id=K.pm_over_in_185 props=C18 kind=complete tier=thorough timeout=900 fns=sw_composite::over_in
// @+ desc="over_in(s,d,185) keeps r,g,b <= a for all premultiplied s,d (one of the 256 coverage values; all 256 together are the complete statement)"
pm_over_in_at!(k_pm_over_in_185, 185);
// @ob id=K.pm_over_in_186 props=C18 kind=complete tier=thorough timeout=900 fns=sw_composite::over_in
// @+ desc="over_in(s,d,186) keeps r,g,b <= a for all premultiplied s,d (one of the 256 coverage values; all 256 together are the complete statement)"
pm_over_in_at!(k_pm_over_in_186, 186);
// @ob id=K.pm_over_in_187 props=C18 kind=complete tier=thorough timeout=900 fns=sw_composite::over_in
// @+ desc="over_in(s,d,187) keeps r,g,b <= a for all premultiplied s,d (one of the 256 coverage values; all 256 together are the complete statement)"
pm_over_in_at!(k_pm_over_in_187, 187);
// @ob id=K.pm_over_in_188 props=C18 kind=complete tier=thorough timeout=900 fns=sw_composite::over_in
// @+ desc="over_in(s,d,188) keeps r,g,b <= a for all premultiplied s,d (one of the 256 coverage values; all 256 together are the complete statement)"
pm_over_in_at!(k_pm_over_in_188, 188);
// @ob id=K.pm_over_in_189 props=C18 kind=complete tier=thorough timeout=900 fns=sw_composite::over_in
// @+ desc="over_in(s,d,189) keeps r,g,b <= a for all premultiplied s,d (one of the 256 coverage values; all 256 together are the complete statement)"
pm_over_in_at!(k_pm_over_in_189, 189);
// @ob id=K.pm_over_in_190 props=C18 kind=complete tier=thorough timeout=900 fns=sw_composite::over_in
// @+ desc="over_in(s,d,190) keeps r,g,b <= a for all premultiplied s,d (one of the 256 coverage values; all 256 together are the complete statement)"
pm_over_in_at!(k_pm_over_in_190, 190);
// @ob id=K.pm_over_in_191 props=C18 kind=complete tier=thorough timeout=900 fns=sw_composite::over_in
// @+ desc="over_in(s,d,191) keeps r,g,b <= a for all premultiplied s,d (one of the 256 coverage values; all 256 together are the complete statement)"
pm_over_in_at!(k_pm_over_in_191, 191);
// @ob id=K.pm_over_in_192 props=C18 kind=complete tier=thorough timeout=900 fns=sw_composite::over_in
// @+ desc="over_in(s,d,192) keeps r,g,b <= a for all premultiplied s,d (one of the 256 coverage values; all 256 together are the complete statement)"
pm_over_in_at!(k_pm_over_in_192, 192);
// @ob id=K.pm_over_in_193 props=C18 kind=complete tier=thorough timeout=900 fns=sw_composite::over_in
// @+ desc="over_in(s,d,193) keeps r,g,b <= a for all premultiplied s,d (one of the 256 coverage values; all 256 together are the complete statement)"
pm_over_in_at!(k_pm_over_in_193, 193);
// @ob id=K.pm_over_in_194 props=C18 kind=complete tier=thorough timeout=900 fns=sw_composite::over_in
// @+ desc="over_in(s,d,194) keeps r,g,b <= a for all premultiplied s,d (one of the 256 coverage values; all 256 together are the complete statement)"
pm_over_in_at!(k_pm_over_in_194, 194);
// @ob id=K.pm_over_in_195 props=C18 kind=complete tier=thorough timeout=900 fns=sw_composite::over_in
// @+ desc="over_in(s,d,195) keeps r,g,b <= a for all premultiplied s,d (one of the 256 coverage values; all 256 together are the complete statement)"
pm_over_in_at!(k_pm_over_in_195, 195);
// @ob id=K.pm_over_in_196 props=C18 kind=complete tier=thorough timeout=900 fns=sw_composite::over_in
// @+ desc="over_in(s,d,196) keeps r,g,b <= a for all premultiplied s,d (one of the 256 coverage values; all 256 together are the complete statement)"
pm_over_in_at!(k_pm_over_in_196, 196);
// @ob id=K.pm_over_in_197 props=C18 kind=complete tier=thorough timeout=900 fns=sw_composite::over_in
// @+ desc="over_in(s,d,197) keeps r,g,b <= a for all premultiplied s,d (one of the 256 coverage values; all 256 together are the complete statement)"
pm_over_in_at!(k_pm_over_in_197, 197);
// @ob id=K.pm_over_in_198 props=C18 kind=complete tier=thorough timeout=900 fns=sw_composite::over_in
// @+ desc="over_in(s,d,198) keeps r,g,b <= a for all premultiplied s,d (one of the 256 coverage values; all 256 together are the complete statement)"
pm_over_in_at!(k_pm_over_in_198, 198);
// @ob id=K.pm_over_in_199 props=C18 kind=complete tier=thorough timeout=900 fns=sw_composite::over_in
// @+ desc="over_in(s,d,199) keeps r,g,b <= a for all premultiplied s,d (one of the 256 coverage values; all 256 together are the complete statement)"
pm_over_in_at!(k_pm_over_in_199, 199);
// @ob id=K.pm_over_in_200 props=C18 kind=complete tier=thorough timeout=900 fns=sw_composite::over_in
// @+ desc="over_in(s,d,200) keeps r,g,b <= a for all premultiplied s,d (one of the 256 coverage values; all 256 together are the complete statement)"
pm_over_in_at!(k_pm_over_in_200, 200);
// @ob id=K.pm_over_in_201 props=C18 kind=complete tier=thorough timeout=900 fns=sw_composite::over_in
// @+ desc="over_in(s,d,201) keeps r,g,b <= a for all premultiplied s,d (one of the 256 coverage values; all 256 together are the complete statement)"
pm_over_in_at!(k_pm_over_in_201, 201);
// @ob id=K.pm_over_in_202 props=C18 kind=complete tier=thorough timeout=900 fns=sw_composite::over_in
// @+ desc="over_in(s,d,202) keeps r,g,b <= a for all premultiplied s,d (one of the 256 coverage values; all 256 together are the complete statement)"
pm_over_in_at!(k_pm_over_in_202, 202);
// @ob id=K.pm_over_in_203 props=C18 kind=complete tier=thorough timeout=900 fns=sw_composite::over_in
// @+ desc="over_in(s,d,203) keeps r,g,b <= a for all premultiplied s,d (one of the 256 coverage values; all 256 together are the complete statement)"
pm_over_in_at!(k_pm_over_in_203, 203);
// @ob id=K.pm_over_in_204 props=C18 kind=complete tier=thorough timeout=900 fns=sw_composite::over_in
// @+ desc="over_in(s,d,204) keeps r,g,b <= a for all premultiplied s,d (one of the 256 coverage values; all 256 together are the complete statement)"
pm_over_in_at!(k_pm_over_in_204, 204);
// @ob id=K.pm_over_in_205 props=C18 kind=complete tier=thorough timeout=900 fns=sw_composite::over_in
// @+ desc="over_in(s,d,205) keeps r,g,b <= a for all premultiplied s,d (one of the 256 coverage values; all 256 together are the complete statement)"
pm_over_in_at!(k_pm_over_in_205, 205);
// @ob id=K.pm_over_in_206 props=C18 kind=complete tier=thorough timeout=900 fns=sw_composite::over_in
// @+ desc="over_in(s,d,206) keeps r,g,b <= a for all premultiplied s,d (one of the 256 coverage values; all 256 together are the complete statement)"
pm_over_in_at!(k_pm_over_in_206, 206);
// @ob id=K.pm_over_in_207 props=C18 kind=complete tier=thorough timeout=900 fns=sw_composite::over_in
// @+ desc="over_in(s,d,207) keeps r,g,b <= a for all premultiplied s,d (one of the 256 coverage values; all 256 together are the complete statement)"
pm_over_in_at!(k_pm_over_in_207, 207);
// @ob id=K.pm_over_in_208 props=C18 kind=complete tier=thorough timeout=900 fns=sw_composite::over_in
// @+ desc="over_in(s,d,208) keeps r,g,b <= a for all premultiplied s,d (one of the 256 coverage values; all 256 together are the complete statement)"
pm_over_in_at!(k_pm_over_in_208, 208);
// @ob id=K.pm_over_in_209 props=C18 kind=complete tier=thorough timeout=900 fns=sw_composite::over_in
// @+ desc="over_in(s,d,209) keeps r,g,b <= a for all premultiplied s,d (one of the 256 coverage values; all 256 together are the complete statement)"
pm_over_in_at!(k_pm_over_in_209, 209);
// @ob id=K.pm_over_in_210 props=C18 kind=complete tier=thorough timeout=900 fns=sw_composite::over_in
// @+ desc="over_in(s,d,210) keeps r,g,b <= a for all premultiplied s,d (one of the 256 coverage values; all 256 together are the complete statement)"
pm_over_in_at!(k_pm_over_in_210, 210);
// @ob id=K.pm_over_in_211 props=C18 kind=complete tier=thorough timeout=900 fns=sw_composite::over_in
// @+ desc="over_in(s,d,211) keeps r,g,b <= a for all premultiplied s,d (one of the 256 coverage values; all 256 together are the complete statement)"
pm_over_in_at!(k_pm_over_in_211, 211);
// @ob id=K.pm_over_in_212 props=C18 kind=complete tier=thorough timeout=900 fns=sw_composite::over_in
// @+ desc="over_in(s,d,212) keeps r,g,b <= a for all premultiplied s,d (one of the 256 coverage values; all 256 together are the complete statement)"
pm_over_in_at!(k_pm_over_in_212, 212);
// @ob id=K.pm_over_in_213 props=C18 kind=complete tier=thorough timeout=900 fns=sw_composite::over_in
// @+ desc="over_in(s,d,213) keeps r,g,b <= a for all premultiplied s,d (one of the 256 coverage values; all 256 together are the complete statement)"
pm_over_in_at!(k_pm_over_in_213, 213);
// @ob id=K.pm_over_in_214 props=C18 kind=complete tier=thorough timeout=900 fns=sw_composite::over_in
// @+ desc="over_in(s,d,214) keeps r,g,b <= a for all premultiplied s,d (one of the 256 coverage values; all 256 together are the complete statement)"
pm_over_in_at!(k_pm_over_in_214, 214);
// @ob id=K.pm_over_in_215 props=C18 kind=complete tier=thorough timeout=900 fns=sw_composite::over_in
// @+ desc="over_in(s,d,215) keeps r,g,b <= a for all premultiplied s,d (one of the 256 coverage values; all 256 together are the complete statement)"
pm_over_in_at!(k_pm_over_in_215, 215);
// @ob id=K.pm_over_in_216 props=C18 kind=complete tier=thorough timeout=900 fns=sw_composite::over_in
// @+ desc="over_in(s,d,216) keeps r,g,b <= a for all premultiplied s,d (one of the 256 coverage values; all 256 together are the complete statement)"
pm_over_in_at!(k_pm_over_in_216, 216);
// @ob id=K.pm_over_in_217 props=C18 kind=complete tier=thorough timeout=900 fns=sw_composite::over_in
// @+ desc="over_in(s,d,217) keeps r,g,b <= a for all premultiplied s,d (one of the 256 coverage values; all 256 together are the complete statement)"
pm_over_in_at!(k_pm_over_in_217, 217);
// @ob id=K.pm_over_in_218 props=C18 kind=complete tier=thorough timeout=900 fns=sw_composite::over_in
// @+ desc="over_in(s,d,218) keeps r,g,b <= a for all premultiplied s,d (one of the 256 coverage values; all 256 together are the complete statement)"
pm_over_in_at!(k_pm_over_in_218, 218);
// @ob id=K.pm_over_in_219 props=C18 kind=complete tier=thorough timeout=900 fns=sw_composite::over_in
// @+ desc="over_in(s,d,219) keeps r,g,b <= a for all premultiplied s,d (one of the 256 coverage values; all 256 together are the complete statement)"
pm_over_in_at!(k_pm_over_in_219, 219);
// @ob id=K.pm_over_in_220 props=C18 kind=complete tier=thorough timeout=900 fns=sw_composite::over_in
// @+ desc="over_in(s,d,220) keeps r,g,b <= a for all premultiplied s,d (one of the 256 coverage values; all 256 together are the complete statement)"
pm_over_in_at!(k_pm_over_in_220, 220);
// @ob id=K.pm_over_in_221 props=C18 kind=complete tier=thorough timeout=900 fns=sw_composite::over_in
// @+ desc="over_in(s,d,221) keeps r,g,b <= a for all premultiplied s,d (one of the 256 coverage values; all 256 together are the complete statement)"
pm_over_in_at!(k_pm_over_in_221, 221);
// @ob id=K.pm_over_in_222 props=C18 kind=complete tier=thorough timeout=900 fns=sw_composite::over_in
// @+ desc="over_in(s,d,222) keeps r,g,b <= a for all premultiplied s,d (one of the 256 coverage values; all 256 together are the complete statement)"
pm_over_in_at!(k_pm_over_in_222, 222);
// @ob id=K.pm_over_in_223 props=C18 kind=complete tier=thorough timeout=900 fns=sw_composite::over_in
// @+ desc="over_in(s,d,223) keeps r,g,b <= a for all premultiplied s,d (one of the 256 coverage values; all 256 together are the complete statement)"
pm_over_in_at!(k_pm_over_in_223, 223);
// @ob id=K.pm_over_in_224 props=C18 kind=complete tier=thorough timeout=900 fns=sw_composite::over_in
// @+ desc="over_in(s,d,224) keeps r,g,b <= a for all premultiplied s,d (one of the 256 coverage values; all 256 together are the complete statement)"
pm_over_in_at!(k_pm_over_in_224, 224);
// @ob id=K.pm_over_in_225 props=C18 kind=complete tier=thorough timeout=900 fns=sw_composite::over_in
// @+ desc="over_in(s,d,225) keeps r,g,b <= a for all premultiplied s,d (one of the 256 coverage values; all 256 together are the complete statement)"
pm_over_in_at!(k_pm_over_in_225, 225);
// @ob id=K.pm_over_in_226 props=C18 kind=complete tier=thorough timeout=900 fns=sw_composite::over_in
// @+ desc="over_in(s,d,226) keeps r,g,b <= a for all premultiplied s,d (one of the 256 coverage values; all 256 together are the complete statement)"
pm_over_in_at!(k_pm_over_in_226, 226);
// @ob id=K.pm_over_in_227 props=C18 kind=complete tier=thorough timeout=900 fns=sw_composite::over_in
// @+ desc="over_in(s,d,227) keeps r,g,b <= a for all premultiplied s,d (one of the 256 coverage values; all 256 together are the complete statement)"
pm_over_in_at!(k_pm_over_in_227, 227);
// @ob id=K.pm_over_in_228 props=C18 kind=complete tier=thorough timeout=900 fns=sw_composite::over_in
// @+ desc="over_in(s,d,228) keeps r,g,b <= a for all premultiplied s,d (one of the 256 coverage values; all 256 together are the complete statement)"
pm_over_in_at!(k_pm_over_in_228, 228);
// @ob id=K.pm_over_in_229 props=C18 kind=complete tier=thorough timeout=900 fns=sw_composite::over_in
// @+ desc="over_in(s,d,229) keeps r,g,b <= a for all premultiplied s,d (one of the 256 coverage values; all 256 together are the complete statement)"
pm_over_in_at!(k_pm_over_in_229, 229);
// @ob id=K.pm_over_in_230 props=C18 kind=complete tier=thorough timeout=900 fns=sw_composite::over_in
// @+ desc="over_in(s,d,230) keeps r,g,b <= a for all premultiplied s,d (one of the 256 coverage values; all 256 together are the complete statement)"
pm_over_in_at!(k_pm_over_in_230, 230);
// @ob id=K.pm_over_in_231 props=C18 kind=complete tier=thorough timeout=900 fns=sw_composite::over_in
// @+ desc="over_in(s,d,231) keeps r,g,b <= a for all premultiplied s,d (one of the 256 coverage values; all 256 together are the complete statement)"
pm_over_in_at!(k_pm_over_in_231, 231);
// @ob id=K.pm_over_in_232 props=C18 kind=complete tier=thorough timeout=900 fns=sw_composite::over_in
// @+ desc="over_in(s,d,232) keeps r,g,b <= a for all premultiplied s,d (one of the 256 coverage values; all 256 together are the complete statement)"
pm_over_in_at!(k_pm_over_in_232, 232);
// @ob id=K.pm_over_in_233 props=C18 kind=complete tier=thorough timeout=900 fns=sw_composite::over_in
// @+ desc="over_in(s,d,233) keeps r,g,b <= a for all premultiplied s,d (one of the 256 coverage values; all 256 together are the complete statement)"
pm_over_in_at!(k_pm_over_in_233, 233);
// @ob id=K.pm_over_in_234 props=C18 kind=complete tier=thorough timeout=900 fns=sw_composite::over_in
// @+ desc="over_in(s,d,234) keeps r,g,b <= a for all premultiplied s,d (one of the 256 coverage values; all 256 together are the complete statement)"
pm_over_in_at!(k_pm_over_in_234, 234);
// @ob id=K.pm_over_in_235 props=C18 kind=complete tier=thorough timeout=900 fns=sw_composite::over_in
// @+ desc="over_in(s,d,235) keeps r,g,b <= a for all premultiplied s,d (one of the 256 coverage values; all 256 together are the complete statement)"
pm_over_in_at!(k_pm_over_in_235, 235);
// @ob id=K.pm_over_in_236 props=C18 kind=complete tier=thorough timeout=900 fns=sw_composite::over_in
// @+ desc="over_in(s,d,236) keeps r,g,b <= a for all premultiplied s,d (one of the 256 coverage values; all 256 together are the complete statement)"
pm_over_in_at!(k_pm_over_in_236, 236);
// @ob id=K.pm_over_in_237 props=C18 kind=complete tier=thorough timeout=900 fns=sw_composite::over_in
// @+ desc="over_in(s,d,237) keeps r,g,b <= a for all premultiplied s,d (one of the 256 coverage values; all 256 together are the complete statement)"
pm_over_in_at!(k_pm_over_in_237, 237);
// @ob id=K.pm_over_in_238 props=C18 kind=complete tier=thorough timeout=900 fns=sw_composite::over_in
// @+ desc="over_in(s,d,238) keeps r,g,b <= a for all premultiplied s,d (one of the 256 coverage values; all 256 together are the complete statement)"
pm_over_in_at!(k_pm_over_in_238, 238);
// @ob id=K.pm_over_in_239 props=C18 kind=complete tier=thorough timeout=900 fns=sw_composite::over_in
// @+ desc="over_in(s,d,239) keeps r,g,b <= a for all premultiplied s,d (one of the 256 coverage values; all 256 together are the complete statement)"
pm_over_in_at!(k_pm_over_in_239, 239);
// @ob id=K.pm_over_in_240 props=C18 kind=complete tier=thorough timeout=900 fns=sw_composite::over_in
// @+ desc="over_in(s,d,240) keeps r,g,b <= a for all premultiplied s,d (one of the 256 coverage values; all 256 together are the complete statement)"
pm_over_in_at!(k_pm_over_in_240, 240);
// @ob id=K.pm_over_in_241 props=C18 kind=complete tier=thorough timeout=900 fns=sw_composite::over_in
// @+ desc="over_in(s,d,241) keeps r,g,b <= a for all premultiplied s,d (one of the 256 coverage values; all 256 together are the complete statement)"
pm_over_in_at!(k_pm_over_in_241, 241);
// @ob id=K.pm_over_in_242 props=C18 kind=complete tier=thorough timeout=900 fns=sw_composite::over_in
// @+ desc="over_in(s,d,242) keeps r,g,b <= a for all premultiplied s,d (one of the 256 coverage values; all 256 together are the complete statement)"
pm_over_in_at!(k_pm_over_in_242, 242);
// @ob id=K.pm_over_in_243 props=C18 kind=complete tier=thorough timeout=900 fns=sw_composite::over_in
// @+ desc="over_in(s,d,243) keeps r,g,b <= a for all premultiplied s,d (one of the 256 coverage values; all 256 together are the complete statement)"
pm_over_in_at!(k_pm_over_in_243, 243);
// @ob id=K.pm_over_in_244 props=C18 kind=complete tier=thorough timeout=900 fns=sw_composite::over_in
// @+ desc="over_in(s,d,244) keeps r,g,b <= a for all premultiplied s,d (one of the 256 coverage values; all 256 together are the complete statement)"
pm_over_in_at!(k_pm_over_in_244, 244);
// @ob id=K.pm_over_in_245 props=C18 kind=complete tier=thorough timeout=900 fns=sw_composite::over_in
// @+ desc="over_in(s,d,245) keeps r,g,b <= a for all premultiplied s,d (one of the 256 coverage values; all 256 together are the complete statement)"
pm_over_in_at!(k_pm_over_in_245, 245);
// @ob id=K.pm_over_in_246 props=C18 kind=complete tier=thorough timeout=900 fns=sw_composite::over_in
// @+ desc="over_in(s,d,246) keeps r,g,b <= a for all premultiplied s,d (one of the 256 coverage values; all 256 together are the complete statement)"
pm_over_in_at!(k_pm_over_in_246, 246);
// @ob id=K.pm_over_in_247 props=C18 kind=complete tier=thorough timeout=900 fns=sw_composite::over_in
// @+ desc="over_in(s,d,247) keeps r,g,b <= a for all premultiplied s,d (one of the 256 coverage values; all 256 together are the complete statement)"
pm_over_in_at!(k_pm_over_in_247, 247);
// @ob id=K.pm_over_in_248 props=C18 kind=complete tier=thorough timeout=900 fns=sw_composite::over_in
// @+ desc="over_in(s,d,248) keeps r,g,b <= a for all premultiplied s,d (one of the 256 coverage values; all 256 together are the complete statement)"
pm_over_in_at!(k_pm_over_in_248, 248);
// @ob id=K.pm_over_in_249 props=C18 kind=complete tier=thorough timeout=900 fns=sw_composite::over_in
// @+ desc="over_in(s,d,249) keeps r,g,b <= a for all premultiplied s,d (one of the 256 coverage values; all 256 together are the complete statement)"
pm_over_in_at!(k_pm_over_in_249, 249);
// @ob id=K.pm_over_in_250 props=C18 kind=complete tier=thorough timeout=900 fns=sw_composite::over_in
// @+ desc="over_in(s,d,250) keeps r,g,b <= a for all premultiplied s,d (one of the 256 coverage values; all 256 together are the complete statement)"
pm_over_in_at!(k_pm_over_in_250, 250);
// @ob id=K.pm_over_in_251 props=C18 kind=complete tier=thorough timeout=900 fns=sw_composite::over_in
// @+ desc="over_in(s,d,251) keeps r,g,b <= a for all premultiplied s,d (one of the 256 coverage values; all 256 together are the complete statement)"
pm_over_in_at!(k_pm_over_in_251, 251);
// @ob id=K.pm_over_in_252 props=C18 kind=complete tier=thorough timeout=900 fns=sw_composite::over_in
// @+ desc="over_in(s,d,252) keeps r,g,b <= a for all premultiplied s,d (one of the 256 coverage values; all 256 together are the complete statement)"
pm_over_in_at!(k_pm_over_in_252, 252);
// @ob id=K.pm_over_in_253 props=C18 kind=complete tier=thorough timeout=900 fns=sw_composite::over_in
// @+ desc="over_in(s,d,253) keeps r,g,b <= a for all premultiplied s,d (one of the 256 coverage values; all 256 together are the complete statement)"
pm_over_in_at!(k_pm_over_in_253, 253);
// @ob id=K.pm_over_in_254 props=C18 kind=complete tier=quick timeout=900 fns=sw_composite::over_in
// @+ desc="over_in(s,d,254) keeps r,g,b <= a for all premultiplied s,d (one of the 256 coverage values; all 256 together are the complete statement)"
pm_over_in_at!(k_pm_over_in_254, 254);
// @ob id=K.pm_over_in_255 props=C18 kind=complete tier=quick timeout=900 fns=sw_composite::over_in
// @+ desc="over_in(s,d,255) keeps r,g,b <= a for all premultiplied s,d (one of the 256 coverage values; all 256 together are the complete statement)"
pm_over_in_at!(k_pm_over_in_255, 255);
// @ob id=K.pm_lerp_000 props=C18 kind=complete tier=thorough timeout=600 fns=sw_composite::lerp
// @+ desc="lerp(d,b,0) keeps r,g,b <= a for all premultiplied d,b (one of the 257 weights)"
pm_lerp_at!(k_pm_lerp_000, 0);
// @ob id=K.pm_lerp_001 props=C18 kind=complete tier=quick timeout=600 fns=sw_composite::lerp
// @+ desc="lerp(d,b,1) keeps r,g,b <= a for all premultiplied d,b (one of the 257 weights)"
pm_lerp_at!(k_pm_lerp_001, 1);
// @ob id=K.pm_lerp_002 props=C18 kind=complete tier=quick timeout=600 fns=sw_composite::lerp
// @+ desc="lerp(d,b,2) keeps r,g,b <= a for all premultiplied d,b (one of the 257 weights)"
pm_lerp_at!(k_pm_lerp_002, 2);
// @ob id=K.pm_lerp_003 props=C18 kind=complete tier=thorough timeout=600 fns=sw_composite::lerp
// @+ desc="lerp(d,b,3) keeps r,g,b <= a for all premultiplied d,b (one of the 257 weights)"
pm_lerp_at!(k_pm_lerp_003, 3);
// @ob id=K.pm_lerp_004 props=C18 kind=complete tier=thorough timeout=600 fns=sw_composite::lerp
// @+ desc="lerp(d,b,4) keeps r,g,b <= a for all premultiplied d,b (one of the 257 weights)"
pm_lerp_at!(k_pm_lerp_004, 4);
// @ob id=K.pm_lerp_005 props=C18 kind=complete tier=thorough timeout=600 fns=sw_composite::lerp
// @+ desc="lerp(d,b,5) keeps r,g,b <= a for all premultiplied d,b (one of the 257 weights)"
pm_lerp_at!(k_pm_lerp_005, 5);
// @ob id=K.pm_lerp_006 props=C18 kind=complete tier=thorough timeout=600 fns=sw_composite::lerp
// @+ desc="lerp(d,b,6) keeps r,g,b <= a for all premultiplied d,b (one of the 257 weights)"
pm_lerp_at!(k_pm_lerp_006, 6);
// @ob id=K.pm_lerp_007 props=C18 kind=complete tier=thorough timeout=600 fns=sw_composite::lerp
// @+ desc="lerp(d,b,7) keeps r,g,b <= a for all premultiplied d,b (one of the 257 weights)"
pm_lerp_at!(k_pm_lerp_007, 7);
// @ob id=K.pm_lerp_008 props=C18 kind=complete tier=thorough timeout=600 fns=sw_composite::lerp
// @+ desc="lerp(d,b,8) keeps r,g,b <= a for all premultiplied d,b (one of the 257 weights)"
pm_lerp_at!(k_pm_lerp_008, 8);
// @ob id=K.pm_lerp_009 props=C18 kind=complete tier=thorough timeout=600 fns=sw_composite::lerp
// @+ desc="lerp(d,b,9) keeps r,g,b <= a for all premultiplied d,b (one of the 257 weights)"
pm_lerp_at!(k_pm_lerp_009, 9);
// @ob id=K.pm_lerp_010 props=C18 kind=complete tier=thorough timeout=600 fns=sw_composite::lerp
// @+ desc="lerp(d,b,10) keeps r,g,b <= a for all premultiplied d,b (one of the 257 weights)"
pm_lerp_at!(k_pm_lerp_010, 10);
// @ob id=K.pm_lerp_011 props=C18 kind=complete tier=thorough timeout=600 fns=sw_composite::lerp
// @+ desc="lerp(d,b,11) keeps r,g,b <= a for all premultiplied d,b (one of the 257 weights)"
pm_lerp_at!(k_pm_lerp_011, 11);
// @ob id=K.pm_lerp_012 props=C18 kind=complete tier=thorough timeout=600 fns=sw_composite::lerp
// @+ desc="lerp(d,b,12) keeps r,g,b <= a for all premultiplied d,b (one of the 257 weights)"
pm_lerp_at!(k_pm_lerp_012, 12);
// @ob id=K.pm_lerp_013 props=C18 kind=complete tier=thorough timeout=600 fns=sw_composite::lerp
// @+ desc="lerp(d,b,13) keeps r,g,b <= a for all premultiplied d,b (one of the 257 weights)"
pm_lerp_at!(k_pm_lerp_013, 13);
// @ob id=K.pm_lerp_014 props=C18 kind=complete tier=thorough timeout=600 fns=sw_composite::lerp
// @+ desc="lerp(d,b,14) keeps r,g,b <= a for all premultiplied d,b (one of the 257 weights)"
pm_lerp_at!(k_pm_lerp_014, 14);
// @ob id=K.pm_lerp_015 props=C18 kind=complete tier=thorough timeout=600 fns=sw_composite::lerp
// @+ desc="lerp(d,b,15) keeps r,g,b <= a for all premultiplied d,b (one of the 257 weights)"
pm_lerp_at!(k_pm_lerp_015, 15);
// @ob id=K.pm_lerp_016 props=C18 kind=complete tier=thorough timeout=600 fns=sw_composite::lerp
// @+ desc="lerp(d,b,16) keeps r,g,b <= a for all premultiplied d,b (one of the 257 weights)"
pm_lerp_at!(k_pm_lerp_016, 16);
// @ob id=K.pm_lerp_017 props=C18 kind=complete tier=thorough timeout=600 fns=sw_composite::lerp
// @+ desc="lerp(d,b,17) keeps r,g,b <= a for all premultiplied d,b (one of the 257 weights)"
pm_lerp_at!(k_pm_lerp_017, 17);
// @ob id=K.pm_lerp_018 props=C18 kind=complete tier=thorough timeout=600 fns=sw_composite::lerp
// @+ desc="lerp(d,b,18) keeps r,g,b <= a for all premultiplied d,b (one of the 257 weights)"
pm_lerp_at!(k_pm_lerp_018, 18);
// @ob id=K.pm_lerp_019 props=C18 kind=complete tier=thorough timeout=600 fns=sw_composite::lerp
// @+ desc="lerp(d,b,19) keeps r,g,b <= a for all premultiplied d,b (one of the 257 weights)"
pm_lerp_at!(k_pm_lerp_019, 19);
// @ob id=K.pm_lerp_020 props=C18 kind=complete tier=thorough timeout=600 fns=sw_composite::lerp
// @+ desc="lerp(d,b,20) keeps r,g,b <= a for all premultiplied d,b (one of the 257 weights)"
pm_lerp_at!(k_pm_lerp_020, 20);
// @ob id=K.pm_lerp_021 props=C18 kind=complete tier=thorough timeout=600 fns=sw_composite::lerp
// @+ desc="lerp(d,b,21) keeps r,g,b <= a for all premultiplied d,b (one of the 257 weights)"
pm_lerp_at!(k_pm_lerp_021, 21);
// @ob id=K.pm_lerp_022 props=C18 kind=complete tier=thorough timeout=600 fns=sw_composite::lerp
// @+ desc="lerp(d,b,22) keeps r,g,b <= a for all premultiplied d,b (one of the 257 weights)"
pm_lerp_at!(k_pm_lerp_022, 22);
// @ob id=K.pm_lerp_023 props=C18 kind=complete tier=thorough timeout=600 fns=sw_composite::lerp
// @+ desc="lerp(d,b,23) keeps r,g,b <= a for all premultiplied d,b (one of the 257 weights)"
pm_lerp_at!(k_pm_lerp_023, 23);
// @ob id=K.pm_lerp_024 props=C18 kind=complete tier=thorough timeout=600 fns=sw_composite::lerp
// @+ desc="lerp(d,b,24) keeps r,g,b <= a for all premultiplied d,b (one of the 257 weights)"
pm_lerp_at!(k_pm_lerp_024, 24);
// @ob id=K.pm_lerp_025 props=C18 kind=complete tier=thorough timeout=600 fns=sw_composite::lerp
// @+ desc="lerp(d,b,25) keeps r,g,b <= a for all premultiplied d,b (one of the 257 weights)"
pm_lerp_at!(k_pm_lerp_025, 25);
// @ob id=K.pm_lerp_026 props=C18 kind=complete tier=thorough timeout=600 fns=sw_composite::lerp
// @+ desc="lerp(d,b,26) keeps r,g,b <= a for all premultiplied d,b (one of the 257 weights)"
pm_lerp_at!(k_pm_lerp_026, 26);
// @ob id=K.pm_lerp_027 props=C18 kind=complete tier=thorough timeout=600 fns=sw_composite::lerp
// @+ desc="lerp(d,b,27) keeps r,g,b <= a for all premultiplied d,b (one of the 257 weights)"
pm_lerp_at!(k_pm_lerp_027, 27);
// @ob id=K.pm_lerp_028 props=C18 kind=complete tier=thorough timeout=600 fns=sw_composite::lerp
// @+ desc="lerp(d,b,28) keeps r,g,b <= a for all premultiplied d,b (one of the 257 weights)"
pm_lerp_at!(k_pm_lerp_028, 28);
// @ob id=K.pm_lerp_029 props=C18 kind=complete tier=thorough timeout=600 fns=sw_composite::lerp
// @+ desc="lerp(d,b,29) keeps r,g,b <= a for all premultiplied d,b (one of the 257 weights)"
pm_lerp_at!(k_pm_lerp_029, 29);
// @ob id=K.pm_lerp_030 props=C18 kind=complete tier=thorough timeout=600 fns=sw_composite::lerp
// @+ desc="lerp(d,b,30) keeps r,g,b <= a for all premultiplied d,b (one of the 257 weights)"
pm_lerp_at!(k_pm_lerp_030, 30);
// @ob id=K.pm_lerp_031 props=C18 kind=complete tier=thorough timeout=600 fns=sw_composite::lerp
// @+ desc="lerp(d,b,31) keeps r,g,b <= a for all premultiplied d,b (one of the 257 weights)"
pm_lerp_at!(k_pm_lerp_031, 31);
// @ob id=K.pm_lerp_032 props=C18 kind=complete tier=thorough timeout=600 fns=sw_composite::lerp
// @+ desc="lerp(d,b,32) keeps r,g,b <= a for all premultiplied d,b (one of the 257 weights)"
pm_lerp_at!(k_pm_lerp_032, 32);
// @ob id=K.pm_lerp_033 props=C18 kind=complete tier=thorough timeout=600 fns=sw_composite::lerp
// @+ desc="lerp(d,b,33) keeps r,g,b <= a for all premultiplied d,b (one of the 257 weights)"
pm_lerp_at!(k_pm_lerp_033, 33);
// @ob id=K.pm_lerp_034 props=C18 kind=complete tier=thorough timeout=600 fns=sw_composite::lerp
// @+ desc="lerp(d,b,34) keeps r,g,b <= a for all premultiplied d,b (one of the 257 weights)"
pm_lerp_at!(k_pm_lerp_034, 34);
// @ob id=K.pm_lerp_035 props=C18 kind=complete tier=thorough timeout=600 fns=sw_composite::lerp
// @+ desc="lerp(d,b,35) keeps r,g,b <= a for all premultiplied d,b (one of the 257 weights)"
pm_lerp_at!(k_pm_lerp_035, 35);
// @ob id=K.pm_lerp_036 props=C18 kind=complete tier=thorough timeout=600 fns=sw_composite::lerp
// @+ desc="lerp(d,b,36) keeps r,g,b <= a for all premultiplied d,b (one of the 257 weights)"
pm_lerp_at!(k_pm_lerp_036, 36);
// @ob id=K.pm_lerp_037 props=C18 kind=complete tier=thorough timeout=600 fns=sw_composite::lerp
// @+ desc="lerp(d,b,37) keeps r,g,b <= a for all premultiplied d,b (one of the 257 weights)"
pm_lerp_at!(k_pm_lerp_037, 37);
// @ob id=K.pm_lerp_038 props=C18 kind=complete tier=thorough timeout=600 fns=sw_composite::lerp
// @+ desc="lerp(d,b,38) keeps r,g,b <= a for all premultiplied d,b (one of the 257 weights)"
pm_lerp_at!(k_pm_lerp_038, 38);
// @ob id=K.pm_lerp_039 props=C18 kind=complete tier=thorough timeout=600 fns=sw_composite::lerp
// @+ desc="lerp(d,b,39) keeps r,g,b <= a for all premultiplied d,b (one of the 257 weights)"
pm_lerp_at!(k_pm_lerp_039, 39);
// @ob id=K.pm_lerp_040 props=C18 kind=complete tier=thorough timeout=600 fns=sw_composite::lerp
// @+ desc="lerp(d,b,40) keeps r,g,b <= a for all premultiplied d,b (one of the 257 weights)"
pm_lerp_at!(k_pm_lerp_040, 40);
// @ob id=K.pm_lerp_041 props=C18 kind=complete tier=thorough timeout=600 fns=sw_composite::lerp
// @+ desc="lerp(d,b,41) keeps r,g,b <= a for all premultiplied d,b (one of the 257 weights)"
pm_lerp_at!(k_pm_lerp_041, 41);
// @ob id=K.pm_lerp_042 props=C18 kind=complete tier=thorough timeout=600 fns=sw_composite::lerp
// @+ desc="lerp(d,b,42) keeps r,g,b <= a for all premultiplied d,b (one of the 257 weights)"
pm_lerp_at!(k_pm_lerp_042, 42);
// @ob id=K.pm_lerp_043 props=C18 kind=complete tier=thorough timeout=600 fns=sw_composite::lerp
// @+ desc="lerp(d,b,43) keeps r,g,b <= a for all premultiplied d,b (one of the 257 weights)"
pm_lerp_at!(k_pm_lerp_043, 43);
// @ob id=K.pm_lerp_044 props=C18 kind=complete tier=thorough timeout=600 fns=sw_composite::lerp
// @+ desc="lerp(d,b,44) keeps r,g,b <= a for all premultiplied d,b (one of the 257 weights)"
pm_lerp_at!(k_pm_lerp_044, 44);
// @ob id=K.pm_lerp_045 props=C18 kind=complete tier=thorough timeout=600 fns=sw_composite::lerp
// @+ desc="lerp(d,b,45) keeps r,g,b <= a for all premultiplied d,b (one of the 257 weights)"
pm_lerp_at!(k_pm_lerp_045, 45);
// @ob id=K.pm_lerp_046 props=C18 kind=complete tier=thorough timeout=600 fns=sw_composite::lerp
// @+ desc="lerp(d,b,46) keeps r,g,b <= a for all premultiplied d,b (one of the 257 weights)"
pm_lerp_at!(k_pm_lerp_046, 46);
// @ob id=K.pm_lerp_047 props=C18 kind=complete tier=thorough timeout=600 fns=sw_composite::lerp
// @+ desc="lerp(d,b,47) keeps r,g,b <= a for all premultiplied d,b (one of the 257 weights)"
pm_lerp_at!(k_pm_lerp_047, 47);
// @ob id=K.pm_lerp_048 props=C18 kind=complete tier=thorough timeout=600 fns=sw_composite::lerp
// @+ desc="lerp(d,b,48) keeps r,g,b <= a for all premultiplied d,b (one of the 257 weights)"
pm_lerp_at!(k_pm_lerp_048, 48);
// @ob id=K.pm_lerp_049 props=C18 kind=complete tier=thorough timeout=600 fns=sw_composite::lerp
// @+ desc="lerp(d,b,49) keeps r,g,b <= a for all premultiplied d,b (one of the 257 weights)"
pm_lerp_at!(k_pm_lerp_049, 49);
// @ob id=K.pm_lerp_050 props=C18 kind=complete tier=thorough timeout=600 fns=sw_composite::lerp
// @+ desc="lerp(d,b,50) keeps r,g,b <= a for all premultiplied d,b (one of the 257 weights)"
pm_lerp_at!(k_pm_lerp_050, 50);
// @ob id=K.pm_lerp_051 props=C18 kind=complete tier=thorough timeout=600 fns=sw_composite::lerp
// @+ desc="lerp(d,b,51) keeps r,g,b <= a for all premultiplied d,b (one of the 257 weights)"
pm_lerp_at!(k_pm_lerp_051, 51);
// @ob id=K.pm_lerp_052 props=C18 kind=complete tier=thorough timeout=600 fns=sw_composite::lerp
// @+ desc="lerp(d,b,52) keeps r,g,b <= a for all premultiplied d,b (one of the 257 weights)"
pm_lerp_at!(k_pm_lerp_052, 52);
// @ob id=K.pm_lerp_053 props=C18 kind=complete tier=thorough timeout=600 fns=sw_composite::lerp
// @+ desc="lerp(d,b,53) keeps r,g,b <= a for all premultiplied d,b (one of the 257 weights)"
pm_lerp_at!(k_pm_lerp_053, 53);
// @ob id=K.pm_lerp_054 props=C18 kind=complete tier=thorough timeout=600 fns=sw_composite::lerp
// @+ desc="lerp(d,b,54) keeps r,g,b <= a for all premultiplied d,b (one of the 257 weights)"
pm_lerp_at!(k_pm_lerp_054, 54);
// @ob id=K.pm_lerp_055 props=C18 kind=complete tier=thorough timeout=600 fns=sw_composite::lerp
// @+ desc="lerp(d,b,55) keeps r,g,b <= a for all premultiplied d,b (one of the 257 weights)"
pm_lerp_at!(k_pm_lerp_055, 55);
// @ob id=K.pm_lerp_056 props=C18 kind=complete tier=thorough timeout=600 fns=sw_composite::lerp
// @+ desc="lerp(d,b,56) keeps r,g,b <= a for all premultiplied d,b (one of the 257 weights)"
pm_lerp_at!(k_pm_lerp_056, 56);
// @ob id=K.pm_lerp_057 props=C18 kind=complete tier=thorough timeout=600 fns=sw_composite::lerp
// @+ desc="lerp(d,b,57) keeps r,g,b <= a for all premultiplied d,b (one of the 257 weights)"
pm_lerp_at!(k_pm_lerp_057, 57);
// @ob id=K.pm_lerp_058 props=C18 kind=complete tier=thorough timeout=600 fns=sw_composite::lerp
// @+ desc="lerp(d,b,58) keeps r,g,b <= a for all premultiplied d,b (one of the 257 weights)"
pm_lerp_at!(k_pm_lerp_058, 58);
// @ob id=K.pm_lerp_059 props=C18 kind=complete tier=thorough timeout=600 fns=sw_composite::lerp
// @+ desc="lerp(d,b,59) keeps r,g,b <= a for all premultiplied d,b (one of the 257 weights)"
pm_lerp_at!(k_pm_lerp_059, 59);
// @ob id=K.pm_lerp_060 props=C18 kind=complete tier=thorough timeout=600 fns=sw_composite::lerp
// @+ desc="lerp(d,b,60) keeps r,g,b <= a for all premultiplied d,b (one of the 257 weights)"
pm_lerp_at!(k_pm_lerp_060, 60);
// @ob id=K.pm_lerp_061 props=C18 kind=complete tier=thorough timeout=600 fns=sw_composite::lerp
// @+ desc="lerp(d,b,61) keeps r,g,b <= a for all premultiplied d,b (one of the 257 weights)"
pm_lerp_at!(k_pm_lerp_061, 61);
// @ob id=K.pm_lerp_062 props=C18 kind=complete tier=thorough timeout=600 fns=sw_composite::lerp
// @+ desc="lerp(d,b,62) keeps r,g,b <= a for all premultiplied d,b (one of the 257 weights)"
pm_lerp_at!(k_pm_lerp_062, 62);
// @ob id=K.pm_lerp_063 props=C18 kind=complete tier=thorough timeout=600 fns=sw_composite::lerp
// @+ desc="lerp(d,b,63) keeps r,g,b <= a for all premultiplied d,b (one of the 257 weights)"
pm_lerp_at!(k_pm_lerp_063, 63);
// @ob id=K.pm_lerp_064 props=C18 kind=complete tier=thorough timeout=600 fns=sw_composite::lerp
// @+ desc="lerp(d,b,64) keeps r,g,b <= a for all premultiplied d,b (one of the 257 weights)"
pm_lerp_at!(k_pm_lerp_064, 64);
// @ob id=K.pm_lerp_065 props=C18 kind=complete tier=thorough timeout=600 fns=sw_composite::lerp
// @+ desc="lerp(d,b,65) keeps r,g,b <= a for all premultiplied d,b (one of the 257 weights)"
pm_lerp_at!(k_pm_lerp_065, 65);
// @ob id=K.pm_lerp_066 props=C18 kind=complete tier=thorough timeout=600 fns=sw_composite::lerp
// @+ desc="lerp(d,b,66) keeps r,g,b <= a for all premultiplied d,b (one of the 257 weights)"
pm_lerp_at!(k_pm_lerp_066, 66);
// @ob id=K.pm_lerp_067 props=C18 kind=complete tier=thorough timeout=600 fns=sw_composite::lerp
// @+ desc="lerp(d,b,67) keeps r,g,b <= a for all premultiplied d,b (one of the 257 weights)"
pm_lerp_at!(k_pm_lerp_067, 67);
// @ob id=K.pm_lerp_068 props=C18 kind=complete tier=thorough timeout=600 fns=sw_composite::lerp
// @+ desc="lerp(d,b,68) keeps r,g,b <= a for all premultiplied d,b (one of the 257 weights)"
pm_lerp_at!(k_pm_lerp_068, 68);
// @ob id=K.pm_lerp_069 props=C18 kind=complete tier=thorough timeout=600 fns=sw_composite::lerp
// @+ desc="lerp(d,b,69) keeps r,g,b <= a for all premultiplied d,b (one of the 257 weights)"
pm_lerp_at!(k_pm_lerp_069, 69);
// @ob id=K.pm_lerp_070 props=C18 kind=complete tier=thorough timeout=600 fns=sw_composite::lerp
// @+ desc="lerp(d,b,70) keeps r,g,b <= a for all premultiplied d,b (one of the 257 weights)"
pm_lerp_at!(k_pm_lerp_070, 70);
// @ob id=K.pm_lerp_071 props=C18 kind=complete tier=thorough timeout=600 fns=sw_composite::lerp
// @+ desc="lerp(d,b,71) keeps r,g,b <= a for all premultiplied d,b (one of the 257 weights)"
pm_lerp_at!(k_pm_lerp_071, 71);
// @ob id=K.pm_lerp_072 props=C18 kind=complete tier=thorough timeout=600 fns=sw_composite::lerp
// @+ desc="lerp(d,b,72) keeps r,g,b <= a for all premultiplied d,b (one of the 257 weights)"
pm_lerp_at!(k_pm_lerp_072, 72);
// @ob id=K.pm_lerp_073 props=C18 kind=complete tier=thorough timeout=600 fns=sw_composite::lerp
// @+ desc="lerp(d,b,73) keeps r,g,b <= a for all premultiplied d,b (one of the 257 weights)"
pm_lerp_at!(k_pm_lerp_073, 73);
// @ob id=K.pm_lerp_074 props=C18 kind=complete tier=thorough timeout=600 fns=sw_composite::lerp
// @+ desc="lerp(d,b,74) keeps r,g,b <= a for all premultiplied d,b (one of the 257 weights)"
pm_lerp_at!(k_pm_lerp_074, 74);
// @ob id=K.pm_lerp_075 props=C18 kind=complete tier=thorough timeout=600 fns=sw_composite::lerp
// @+ desc="lerp(d,b,75) keeps r,g,b <= a for all premultiplied d,b (one of the 257 weights)"
pm_lerp_at!(k_pm_lerp_075, 75);
// @ob id=K.pm_lerp_076 props=C18 kind=complete tier=thorough timeout=600 fns=sw_composite::lerp
// @+ desc="lerp(d,b,76) keeps r,g,b <= a for all premultiplied d,b (one of the 257 weights)"
pm_lerp_at!(k_pm_lerp_076, 76);
// @ob id=K.pm_lerp_077 props=C18 kind=complete tier=thorough timeout=600 fns=sw_composite::lerp
// @+ desc="lerp(d,b,77) keeps r,g,b <= a for all premultiplied d,b (one of the 257 weights)"
pm_lerp_at!(k_pm_lerp_077, 77);
// @ob id=K.pm_lerp_078 props=C18 kind=complete tier=thorough timeout=600 fns=sw_composite::lerp
// @+ desc="lerp(d,b,78) keeps r,g,b <= a for all premultiplied d,b (one of the 257 weights)"
pm_lerp_at!(k_pm_lerp_078, 78);
// @ob id=K.pm_lerp_079 props=C18 kind=complete tier=thorough timeout=600 fns=sw_composite::lerp
// @+ desc="lerp(d,b,79) keeps r,g,b <= a for all premultiplied d,b (one of the 257 weights)"
pm_lerp_at!(k_pm_lerp_079, 79);
// @ob id=K.pm_lerp_080 props=C18 kind=complete tier=thorough timeout=600 fns=sw_composite::lerp
// @+ desc="lerp(d,b,80) keeps r,g,b <= a for all premultiplied d,b (one of the 257 weights)"
pm_lerp_at!(k_pm_lerp_080, 80);
// @ob id=K.pm_lerp_081 props=C18 kind=complete tier=thorough timeout=600 fns=sw_composite::lerp
// @+ desc="lerp(d,b,81) keeps r,g,b <= a for all premultiplied d,b (one of the 257 weights)"
pm_lerp_at!(k_pm_lerp_081, 81);
// @ob id=K.pm_lerp_082 props=C18 kind=complete tier=thorough timeout=600 fns=sw_composite::lerp
// @+ desc="lerp(d,b,82) keeps r,g,b <= a for all premultiplied d,b (one of the 257 weights)"
pm_lerp_at!(k_pm_lerp_082, 82);
// @ob id=K.pm_lerp_083 props=C18 kind=complete tier=thorough timeout=600 fns=sw_composite::lerp
// @+ desc="lerp(d,b,83) keeps r,g,b <= a for all premultiplied d,b (one of the 257 weights)"
pm_lerp_at!(k_pm_lerp_083, 83);
// @ob id=K.pm_lerp_084 props=C18 kind=complete tier=thorough timeout=600 fns=sw_composite::lerp
// @+ desc="lerp(d,b,84) keeps r,g,b <= a for all premultiplied d,b (one of the 257 weights)"
pm_lerp_at!(k_pm_lerp_084, 84);
// @ob id=K.pm_lerp_085 props=C18 kind=complete tier=thorough timeout=600 fns=sw_composite::lerp
// @+ desc="lerp(d,b,85) keeps r,g,b <= a for all premultiplied d,b (one of the 257 weights)"
pm_lerp_at!(k_pm_lerp_085, 85);
// @ob id=K.pm_lerp_086 props=C18 kind=complete tier=thorough timeout=600 fns=sw_composite::lerp
// @+ desc="lerp(d,b,86) keeps r,g,b <= a for all premultiplied d,b (one of the 257 weights)"
pm_lerp_at!(k_pm_lerp_086, 86);
// @ob id=K.pm_lerp_087 props=C18 kind=complete tier=thorough timeout=600 fns=sw_composite::lerp
// @+ desc="lerp(d,b,87) keeps r,g,b <= a for all premultiplied d,b (one of the 257 weights)"
pm_lerp_at!(k_pm_lerp_087, 87);
// @ob id=K.pm_lerp_088 props=C18 kind=complete tier=thorough timeout=600 fns=sw_composite::lerp
// @+ desc="lerp(d,b,88) keeps r,g,b <= a for all premultiplied d,b (one of the 257 weights)"
pm_lerp_at!(k_pm_lerp_088, 88);
// @ob id=K.pm_lerp_089 props=C18 kind=complete tier=thorough timeout=600 fns=sw_composite::lerp
// @+ desc="lerp(d,b,89) keeps r,g,b <= a for all premultiplied d,b (one of the 257 weights)"
pm_lerp_at!(k_pm_lerp_089, 89);
// @ob id=K.pm_lerp_090 props=C18 kind=complete tier=thorough timeout=600 fns=sw_composite::lerp
// @+ desc="lerp(d,b,90) keeps r,g,b <= a for all premultiplied d,b (one of the 257 weights)"
pm_lerp_at!(k_pm_lerp_090, 90);
// @ob id=K.pm_lerp_091 props=C18 kind=complete tier=thorough timeout=600 fns=sw_composite::lerp
// @+ desc="lerp(d,b,91) keeps r,g,b <= a for all premultiplied d,b (one of the 257 weights)"
pm_lerp_at!(k_pm_lerp_091, 91);
// @ob id=K.pm_lerp_092 props=C18 kind=complete tier=thorough timeout=600 fns=sw_composite::lerp
// @+ desc="lerp(d,b,92) keeps r,g,b <= a for all premultiplied d,b (one of the 257 weights)"
pm_lerp_at!(k_pm_lerp_092, 92);
// @ob id=K.pm_lerp_093 props=C18 kind=complete tier=thorough timeout=600 fns=sw_composite::lerp
// @+ desc="lerp(d,b,93) keeps r,g,b <= a for all premultiplied d,b (one of the 257 weights)"
pm_lerp_at!(k_pm_lerp_093, 93);
// @ob id=K.pm_lerp_094 props=C18 kind=complete tier=thorough timeout=600 fns=sw_composite::lerp
// @+ desc="lerp(d,b,94) keeps r,g,b <= a for all premultiplied d,b (one of the 257 weights)"
pm_lerp_at!(k_pm_lerp_094, 94);
// @ob id=K.pm_lerp_095 props=C18 kind=complete tier=thorough timeout=600 fns=sw_composite::lerp
// @+ desc="lerp(d,b,95) keeps r,g,b <= a for all premultiplied d,b (one of the 257 weights)"
pm_lerp_at!(k_pm_lerp_095, 95);
// @ob id=K.pm_lerp_096 props=C18 kind=complete tier=thorough timeout=600 fns=sw_composite::lerp
// @+ desc="lerp(d,b,96) keeps r,g,b <= a for all premultiplied d,b (one of the 257 weights)"
pm_lerp_at!(k_pm_lerp_096, 96);
// @ob id=K.pm_lerp_097 props=C18 kind=complete tier=thorough timeout=600 fns=sw_composite::lerp
// @+ desc="lerp(d,b,97) keeps r,g,b <= a for all premultiplied d,b (one of the 257 weights)"
pm_lerp_at!(k_pm_lerp_097, 97);
// @ob id=K.pm_lerp_098 props=C18 kind=complete tier=thorough timeout=600 fns=sw_composite::lerp
// @+ desc="lerp(d,b,98) keeps r,g,b <= a for all premultiplied d,b (one of the 257 weights)"
pm_lerp_at!(k_pm_lerp_098, 98);
// @ob id=K.pm_lerp_099 props=C18 kind=complete tier=thorough timeout=600 fns=sw_composite::lerp
// @+ desc="lerp(d,b,99) keeps r,g,b <= a for all premultiplied d,b (one of the 257 weights)"
pm_lerp_at!(k_pm_lerp_099, 99);
// @ob id=K.pm_lerp_100 props=C18 kind=complete tier=thorough timeout=600 fns=sw_composite::lerp
// @+ desc="lerp(d,b,100) keeps r,g,b <= a for all premultiplied d,b (one of the 257 weights)"
pm_lerp_at!(k_pm_lerp_100, 100);
// @ob id=K.pm_lerp_101 props=C18 kind=complete tier=thorough timeout=600 fns=sw_composite::lerp
// @+ desc="lerp(d,b,101) keeps r,g,b <= a for all premultiplied d,b (one of the 257 weights)"
pm_lerp_at!(k_pm_lerp_101, 101);
// @ob id=K.pm_lerp_102 props=C18 kind=complete tier=thorough timeout=600 fns=sw_composite::lerp
// @+ desc="lerp(d,b,102) keeps r,g,b <= a for all premultiplied d,b (one of the 257 weights)"
pm_lerp_at!(k_pm_lerp_102, 102);
// @ob id=K.pm_lerp_103 props=C18 kind=complete tier=thorough timeout=600 fns=sw_composite::lerp
// @+ desc="lerp(d,b,103) keeps r,g,b <= a for all premultiplied d,b (one of the 257 weights)"
pm_lerp_at!(k_pm_lerp_103, 103);
// @ob id=K.pm_lerp_104 props=C18 kind=complete tier=thorough timeout=600 fns=sw_composite::lerp
// @+ desc="lerp(d,b,104) keeps r,g,b <= a for all premultiplied d,b (one of the 257 weights)"
pm_lerp_at!(k_pm_lerp_104, 104);
// @ob id=K.pm_lerp_105 props=C18 kind=complete tier=thorough timeout=600 fns=sw_composite::lerp
// @+ desc="lerp(d,b,105) keeps r,g,b <= a for all premultiplied d,b (one of the 257 weights)"
pm_lerp_at!(k_pm_lerp_105, 105);
// @ob id=K.pm_lerp_106 props=C18 kind=complete tier=thorough timeout=600 fns=sw_composite::lerp
// @+ desc="lerp(d,b,106) keeps r,g,b <= a for all premultiplied d,b (one of the 257 weights)"
pm_lerp_at!(k_pm_lerp_106, 106);
// @ob id=K.pm_lerp_107 props=C18 kind=complete tier=thorough timeout=600 fns=sw_composite::lerp
// @+ desc="lerp(d,b,107) keeps r,g,b <= a for all premultiplied d,b (one of the 257 weights)"
pm_lerp_at!(k_pm_lerp_107, 107);
// @ob id=K.pm_lerp_108 props=C18 kind=complete tier=thorough timeout=600 fns=sw_composite::lerp
// @+ desc="lerp(d,b,108) keeps r,g,b <= a for all premultiplied d,b (one of the 257 weights)"
pm_lerp_at!(k_pm_lerp_108, 108);
// @ob id=K.pm_lerp_109 props=C18 kind=complete tier=thorough timeout=600 fns=sw_composite::lerp
// @+ desc="lerp(d,b,109) keeps r,g,b <= a for all premultiplied d,b (one of the 257 weights)"
pm_lerp_at!(k_pm_lerp_109, 109);
// @ob id=K.pm_lerp_110 props=C18 kind=complete tier=thorough timeout=600 fns=sw_composite::lerp
// @+ desc="lerp(d,b,110) keeps r,g,b <= a for all premultiplied d,b (one of the 257 weights)"
pm_lerp_at!(k_pm_lerp_110, 110);
// @ob id=K.pm_lerp_111 props=C18 kind=complete tier=thorough timeout=600 fns=sw_composite::lerp
// @+ desc="lerp(d,b,111) keeps r,g,b <= a for all premultiplied d,b (one of the 257 weights)"
pm_lerp_at!(k_pm_lerp_111, 111);
// @ob id=K.pm_lerp_112 props=C18 kind=complete tier=thorough timeout=600 fns=sw_composite::lerp
// @+ desc="lerp(d,b,112) keeps r,g,b <= a for all premultiplied d,b (one of the 257 weights)"
pm_lerp_at!(k_pm_lerp_112, 112);
// @ob id=K.pm_lerp_113 props=C18 kind=complete tier=thorough timeout=600 fns=sw_composite::lerp
// @+ desc="lerp(d,b,113) keeps r,g,b <= a for all premultiplied d,b (one of the 257 weights)"
pm_lerp_at!(k_pm_lerp_113, 113);
// @ob id=K.pm_lerp_114 props=C18 kind=complete tier=thorough timeout=600 fns=sw_composite::lerp
// @+ desc="lerp(d,b,114) keeps r,g,b <= a for all premultiplied d,b (one of the 257 weights)"
pm_lerp_at!(k_pm_lerp_114, 114);
// @ob id=K.pm_lerp_115 props=C18 kind=complete tier=thorough timeout=600 fns=sw_composite::lerp
// @+ desc="lerp(d,b,115) keeps r,g,b <= a for all premultiplied d,b (one of the 257 weights)"
pm_lerp_at!(k_pm_lerp_115, 115);
// @ob id=K.pm_lerp_116 props=C18 kind=complete tier=thorough timeout=600 fns=sw_composite::lerp
// @+ desc="lerp(d,b,116) keeps r,g,b <= a for all premultiplied d,b (one of the 257 weights)"
pm_lerp_at!(k_pm_lerp_116, 116);
// @ob id=K.pm_lerp_117 props=C18 kind=complete tier=thorough timeout=600 fns=sw_composite::lerp
// @+ desc="lerp(d,b,117) keeps r,g,b <= a for all premultiplied d,b (one of the 257 weights)"
pm_lerp_at!(k_pm_lerp_117, 117);
// @ob id=K.pm_lerp_118 props=C18 kind=complete tier=thorough timeout=600 fns=sw_composite::lerp
// @+ desc="lerp(d,b,118) keeps r,g,b <= a for all premultiplied d,b (one of the 257 weights)"
pm_lerp_at!(k_pm_lerp_118, 118);
// @ob id=K.pm_lerp_119 props=C18 kind=complete tier=thorough timeout=600 fns=sw_composite::lerp
// @+ desc="lerp(d,b,119) keeps r,g,b <= a for all premultiplied d,b (one of the 257 weights)"
pm_lerp_at!(k_pm_lerp_119, 119);
// @ob id=K.pm_lerp_120 props=C18 kind=complete tier=thorough timeout=600 fns=sw_composite::lerp
// @+ desc="lerp(d,b,120) keeps r,g,b <= a for all premultiplied d,b (one of the 257 weights)"
pm_lerp_at!(k_pm_lerp_120, 120);
// @ob id=K.pm_lerp_121 props=C18 kind=complete tier=thorough timeout=600 fns=sw_composite::lerp
// @+ desc="lerp(d,b,121) keeps r,g,b <= a for all premultiplied d,b (one of the 257 weights)"
pm_lerp_at!(k_pm_lerp_121, 121);
// @ob id=K.pm_lerp_122 props=C18 kind=complete tier=thorough timeout=600 fns=sw_composite::lerp
// @+ desc="lerp(d,b,122) keeps r,g,b <= a for all premultiplied d,b (one of the 257 weights)"
pm_lerp_at!(k_pm_lerp_122, 122);
// @ob id=K.pm_lerp_123 props=C18 kind=complete tier=thorough timeout=600 fns=sw_composite::lerp
// @+ desc="lerp(d,b,123) keeps r,g,b <= a for all premultiplied d,b (one of the 257 weights)"
pm_lerp_at!(k_pm_lerp_123, 123);
// @ob id=K.pm_lerp_124 props=C18 kind=complete tier=thorough timeout=600 fns=sw_composite::lerp
// @+ desc="lerp(d,b,124) keeps r,g,b <= a for all premultiplied d,b (one of the 257 weights)"
pm_lerp_at!(k_pm_lerp_124, 124);
// @ob id=K.pm_lerp_125 props=C18 kind=complete tier=thorough timeout=600 fns=sw_composite::lerp
// @+ desc="lerp(d,b,125) keeps r,g,b <= a for all premultiplied d,b (one of the 257 weights)"
pm_lerp_at!(k_pm_lerp_125, 125);
// @ob id=K.pm_lerp_126 props=C18 kind=complete tier=thorough timeout=600 fns=sw_composite::lerp
// @+ desc="lerp(d,b,126) keeps r,g,b <= a for all premultiplied d,b (one of the 257 weights)"
pm_lerp_at!(k_pm_lerp_126, 126);
// @ob id=K.pm_lerp_127 props=C18 kind=complete tier=thorough timeout=600 fns=sw_composite::lerp
// @+ desc="lerp(d,b,127) keeps r,g,b <= a for all premultiplied d,b (one of the 257 weights)"
pm_lerp_at!(k_pm_lerp_127, 127);
// @ob id=K.pm_lerp_128 props=C18 kind=complete tier=quick timeout=600 fns=sw_composite::lerp
// @+ desc="lerp(d,b,128) keeps r,g,b <= a for all premultiplied d,b (one of the 257 weights)"
pm_lerp_at!(k_pm_lerp_128, 128);
// @ob id=K.pm_lerp_129 props=C18 kind=complete tier=thorough timeout=600 fns=sw_composite::lerp
// @+ desc="lerp(d,b,129) keeps r,g,b <= a for all premultiplied d,b (one of the 257 weights)"
pm_lerp_at!(k_pm_lerp_129, 129);
// @ob id=K.pm_lerp_130 props=C18 kind=complete tier=thorough timeout=600 fns=sw_composite::lerp
// @+ desc="lerp(d,b,130) keeps r,g,b <= a for all premultiplied d,b (one of the 257 weights)"
pm_lerp_at!(k_pm_lerp_130, 130);
// @ob id=K.pm_lerp_131 props=C18 kind=complete tier=thorough timeout=600 fns=sw_composite::lerp
// @+ desc="lerp(d,b,131) keeps r,g,b <= a for all premultiplied d,b (one of the 257 weights)"
pm_lerp_at!(k_pm_lerp_131, 131);
// @ob id=K.pm_lerp_132 props=C18 kind=complete tier=thorough timeout=600 fns=sw_composite::lerp
// @+ desc="lerp(d,b,132) keeps r,g,b <= a for all premultiplied d,b (one of the 257 weights)"
pm_lerp_at!(k_pm_lerp_132, 132);
// @ob id=K.pm_lerp_133 props=C18 kind=complete tier=thorough timeout=600 fns=sw_composite::lerp
// @+ desc="lerp(d,b,133) keeps r,g,b <= a for all premultiplied d,b (one of the 257 weights)"
pm_lerp_at!(k_pm_lerp_133, 133);
// @ob id=K.pm_lerp_134 props=C18 kind=complete tier=thorough timeout=600 fns=sw_composite::lerp
// @+ desc="lerp(d,b,134) keeps r,g,b <= a for all premultiplied d,b (one of the 257 weights)"
pm_lerp_at!(k_pm_lerp_134, 134);
// @ob id=K.pm_lerp_135 props=C18 kind=complete tier=thorough timeout=600 fns=sw_composite::lerp
// @+ desc="lerp(d,b,135) keeps r,g,b <= a for all premultiplied d,b (one of the 257 weights)"
pm_lerp_at!(k_pm_lerp_135, 135);
// @ob id=K.pm_lerp_136 props=C18 kind=complete tier=thorough timeout=600 fns=sw_composite::lerp
// @+ desc="lerp(d,b,136) keeps r,g,b <= a for all premultiplied d,b (one of the 257 weights)"
pm_lerp_at!(k_pm_lerp_136, 136);
// @ob id=K.pm_lerp_137 props=C18 kind=complete tier=thorough timeout=600 fns=sw_composite::lerp
// @+ desc="lerp(d,b,137) keeps r,g,b <= a for all premultiplied d,b (one of the 257 weights)"
pm_lerp_at!(k_pm_lerp_137, 137);
// @ob id=K.pm_lerp_138 props=C18 kind=complete tier=thorough timeout=600 fns=sw_composite::lerp
// @+ desc="lerp(d,b,138) keeps r,g,b <= a for all premultiplied d,b (one of the 257 weights)"
pm_lerp_at!(k_pm_lerp_138, 138);
// @ob id=K.pm_lerp_139 props=C18 kind=complete tier=thorough timeout=600 fns=sw_composite::lerp
// @+ desc="lerp(d,b,139) keeps r,g,b <= a for all premultiplied d,b (one of the 257 weights)"
pm_lerp_at!(k_pm_lerp_139, 139);
// @ob id=K.pm_lerp_140 props=C18 kind=complete tier=thorough timeout=600 fns=sw_composite::lerp
// @+ desc="lerp(d,b,140) keeps r,g,b <= a for all premultiplied d,b (one of the 257 weights)"
pm_lerp_at!(k_pm_lerp_140, 140);
// @ob id=K.pm_lerp_141 props=C18 kind=complete tier=thorough timeout=600 fns=sw_composite::lerp
// @+ desc="lerp(d,b,141) keeps r,g,b <= a for all premultiplied d,b (one of the 257 weights)"
pm_lerp_at!(k_pm_lerp_141, 141);
// @ob id=K.pm_lerp_142 props=C18 kind=complete tier=thorough timeout=600 fns=sw_composite::lerp
// @+ desc="lerp(d,b,142) keeps r,g,b <= a for all premultiplied d,b (one of the 257 weights)"
pm_lerp_at!(k_pm_lerp_142, 142);
// @ob id=K.pm_lerp_143 props=C18 kind=complete tier=thorough timeout=600 fns=sw_composite::lerp
// @+ desc="lerp(d,b,143) keeps r,g,b <= a for all premultiplied d,b (one of the 257 weights)"
pm_lerp_at!(k_pm_lerp_143, 143);
// @ob id=K.pm_lerp_144 props=C18 kind=complete tier=thorough timeout=600 fns=sw_composite::lerp
// @+ desc="lerp(d,b,144) keeps r,g,b <= a for all premultiplied d,b (one of the 257 weights)"
pm_lerp_at!(k_pm_lerp_144, 144);
// @ob id=K.pm_lerp_145 props=C18 kind=complete tier=thorough timeout=600 fns=sw_composite::lerp
// @+ desc="lerp(d,b,145) keeps r,g,b <= a for all premultiplied d,b (one of the 257 weights)"
pm_lerp_at!(k_pm_lerp_145, 145);
// @ob id=K.pm_lerp_146 props=C18 kind=complete tier=thorough timeout=600 fns=sw_composite::lerp
// @+ desc="lerp(d,b,146) keeps r,g,b <= a for all premultiplied d,b (one of the 257 weights)"
pm_lerp_at!(k_pm_lerp_146, 146);
// @ob id=K.pm_lerp_147 props=C18 kind=complete tier=thorough timeout=600 fns=sw_composite::lerp
// @+ desc="lerp(d,b,147) keeps r,g,b <= a for all premultiplied d,b (one of the 257 weights)"
pm_lerp_at!(k_pm_lerp_147, 147);
// @ob id=K.pm_lerp_148 props=C18 kind=complete tier=thorough timeout=600 fns=sw_composite::lerp
// @+ desc="lerp(d,b,148) keeps r,g,b <= a for all premultiplied d,b (one of the 257 weights)"
pm_lerp_at!(k_pm_lerp_148, 148);
// @ob id=K.pm_lerp_149 props=C18 kind=complete tier=thorough timeout=600 fns=sw_composite::lerp
// @+ desc="lerp(d,b,149) keeps r,g,b <= a for all premultiplied d,b (one of the 257 weights)"
pm_lerp_at!(k_pm_lerp_149, 149);
// @ob id=K.pm_lerp_150 props=C18 kind=complete tier=thorough timeout=600 fns=sw_composite::lerp
// @+ desc="lerp(d,b,150) keeps r,g,b <= a for all premultiplied d,b (one of the 257 weights)"
pm_lerp_at!(k_pm_lerp_150, 150);
// @ob id=K.pm_lerp_151 props=C18 kind=complete tier=thorough timeout=600 fns=sw_composite::lerp
// @+ desc="lerp(d,b,151) keeps r,g,b <= a for all premultiplied d,b (one of the 257 weights)"
pm_lerp_at!(k_pm_lerp_151, 151);
// @ob id=K.pm_lerp_152 props=C18 kind=complete tier=thorough timeout=600 fns=sw_composite::lerp
// @+ desc="lerp(d,b,152) keeps r,g,b <= a for all premultiplied d,b (one of the 257 weights)"
pm_lerp_at!(k_pm_lerp_152, 152);
// @ob id=K.pm_lerp_153 props=C18 kind=complete tier=thorough timeout=600 fns=sw_composite::lerp
// @+ desc="lerp(d,b,153) keeps r,g,b <= a for all premultiplied d,b (one of the 257 weights)"
pm_lerp_at!(k_pm_lerp_153, 153);
// @ob id=K.pm_lerp_154 props=C18 kind=complete tier=thorough timeout=600 fns=sw_composite::lerp
// @+ desc="lerp(d,b,154) keeps r,g,b <= a for all premultiplied d,b (one of the 257 weights)"
pm_lerp_at!(k_pm_lerp_154, 154);
// @ob id=K.pm_lerp_155 props=C18 kind=complete tier=thorough timeout=600 fns=sw_composite::lerp
// @+ desc="lerp(d,b,155) keeps r,g,b <= a for all premultiplied d,b (one of the 257 weights)"
pm_lerp_at!(k_pm_lerp_155, 155);
// @ob id=K.pm_lerp_156 props=C18 kind=complete tier=thorough timeout=600 fns=sw_composite::lerp
// @+ desc="lerp(d,b,156) keeps r,g,b <= a for all premultiplied d,b (one of the 257 weights)"
pm_lerp_at!(k_pm_lerp_156, 156);
// @ob id=K.pm_lerp_157 props=C18 kind=complete tier=thorough timeout=600 fns=sw_composite::lerp
// @+ desc="lerp(d,b,157) keeps r,g,b <= a for all premultiplied d,b (one of the 257 weights)"
pm_lerp_at!(k_pm_lerp_157, 157);
// @ob id=K.pm_lerp_158 props=C18 kind=complete tier=thorough timeout=600 fns=sw_composite::lerp
// @+ desc="lerp(d,b,158) keeps r,g,b <= a for all premultiplied d,b (one of the 257 weights)"
pm_lerp_at!(k_pm_lerp_158, 158);
// @ob id=K.pm_lerp_159 props=C18 kind=complete tier=thorough timeout=600 fns=sw_composite::lerp
// @+ desc="lerp(d,b,159) keeps r,g,b <= a for all premultiplied d,b (one of the 257 weights)"
pm_lerp_at!(k_pm_lerp_159, 159);
// @ob id=K.pm_lerp_160 props=C18 kind=complete tier=thorough timeout=600 fns=sw_composite::lerp
// @+ desc="lerp(d,b,160) keeps r,g,b <= a for all premultiplied d,b (one of the 257 weights)"
pm_lerp_at!(k_pm_lerp_160, 160);
// @ob id=K.pm_lerp_161 props=C18 kind=complete tier=thorough timeout=600 fns=sw_composite::lerp
// @+ desc="lerp(d,b,161) keeps r,g,b <= a for all premultiplied d,b (one of the 257 weights)"
pm_lerp_at!(k_pm_lerp_161, 161);
// @ob id=K.pm_lerp_162 props=C18 kind=complete tier=thorough timeout=600 fns=sw_composite::lerp
// @+ desc="lerp(d,b,162) keeps r,g,b <= a for all premultiplied d,b (one of the 257 weights)"
pm_lerp_at!(k_pm_lerp_162, 162);
// @ob id=K.pm_lerp_163 props=C18 kind=complete tier=thorough timeout=600 fns=sw_composite::lerp
// @+ desc="lerp(d,b,163) keeps r,g,b <= a for all premultiplied d,b (one of the 257 weights)"
pm_lerp_at!(k_pm_lerp_163, 163);
// @ob id=K.pm_lerp_164 props=C18 kind=complete tier=thorough timeout=600 fns=sw_composite::lerp
// @+ desc="lerp(d,b,164) keeps r,g,b <= a for all premultiplied d,b (one of the 257 weights)"
pm_lerp_at!(k_pm_lerp_164, 164);
// @ob id=K.pm_lerp_165 props=C18 kind=complete tier=thorough timeout=600 fns=sw_composite::lerp
// @+ desc="lerp(d,b,165) keeps r,g,b <= a for all premultiplied d,b (one of the 257 weights)"
pm_lerp_at!(k_pm_lerp_165, 165);
// @ob id=K.pm_lerp_166 props=C18 kind=complete tier=thorough timeout=600 fns=sw_composite::lerp
// @+ desc="lerp(d,b,166) keeps r,g,b <= a for all premultiplied d,b (one of the 257 weights)"
pm_lerp_at!(k_pm_lerp_166, 166);
// @ob id=K.pm_lerp_167 props=C18 kind=complete tier=thorough timeout=600 fns=sw_composite::lerp
// @+ desc="lerp(d,b,167) keeps r,g,b <= a for all premultiplied d,b (one of the 257 weights)"
pm_lerp_at!(k_pm_lerp_167, 167);
// @ob id=K.pm_lerp_168 props=C18 kind=complete tier=thorough timeout=600 fns=sw_composite::lerp
// @+ desc="lerp(d,b,168) keeps r,g,b <= a for all premultiplied d,b (one of the 257 weights)"
pm_lerp_at!(k_pm_lerp_168, 168);
// @ob id=K.pm_lerp_169 props=C18 kind=complete tier=thorough timeout=600 fns=sw_composite::lerp
// @+ desc="lerp(d,b,169) keeps r,g,b <= a for all premultiplied d,b (one of the 257 weights)"
pm_lerp_at!(k_pm_lerp_169, 169);
// @ob id=K.pm_lerp_170 props=C18 kind=complete tier=thorough timeout=600 fns=sw_composite::lerp
// @+ desc="lerp(d,b,170) keeps r,g,b <= a for all premultiplied d,b (one of the 257 weights)"
pm_lerp_at!(k_pm_lerp_170, 170);
// @ob id=K.pm_lerp_171 props=C18 kind=complete tier=thorough timeout=600 fns=sw_composite::lerp
// @+ desc="lerp(d,b,171) keeps r,g,b <= a for all premultiplied d,b (one of the 257 weights)"
pm_lerp_at!(k_pm_lerp_171, 171);
// @ob id=K.pm_lerp_172 props=C18 kind=complete tier=thorough timeout=600 fns=sw_composite::lerp
// @+ desc="lerp(d,b,172) keeps r,g,b <= a for all premultiplied d,b (one of the 257 weights)"
pm_lerp_at!(k_pm_lerp_172, 172);
// @ob id=K.pm_lerp_173 props=C18 kind=complete tier=thorough timeout=600 fns=sw_composite::lerp
// @+ desc="lerp(d,b,173) keeps r,g,b <= a for all premultiplied d,b (one of the 257 weights)"
pm_lerp_at!(k_pm_lerp_173, 173);
// @ob id=K.pm_lerp_174 props=C18 kind=complete tier=thorough timeout=600 fns=sw_composite::lerp
// @+ desc="lerp(d,b,174) keeps r,g,b <= a for all premultiplied d,b (one of the 257 weights)"
pm_lerp_at!(k_pm_lerp_174, 174);
// @ob id=K.pm_lerp_175 props=C18 kind=complete tier=thorough timeout=600 fns=sw_composite::lerp
// @+ desc="lerp(d,b,175) keeps r,g,b <= a for all premultiplied d,b (one of the 257 weights)"
pm_lerp_at!(k_pm_lerp_175, 175);
// @ob id=K.pm_lerp_176 props=C18 kind=complete tier=thorough timeout=600 fns=sw_composite::lerp
// @+ desc="lerp(d,b,176) keeps r,g,b <= a for all premultiplied d,b (one of the 257 weights)"
pm_lerp_at!(k_pm_lerp_176, 176);
// @ob id=K.pm_lerp_177 props=C18 kind=complete tier=thorough timeout=600 fns=sw_composite::lerp
// @+ desc="lerp(d,b,177) keeps r,g,b <= a for all premultiplied d,b (one of the 257 weights)"
pm_lerp_at!(k_pm_lerp_177, 177);
// @ob id=K.pm_lerp_178 props=C18 kind=complete tier=thorough timeout=600 fns=sw_composite::lerp
// @+ desc="lerp(d,b,178) keeps r,g,b <= a for all premultiplied d,b (one of the 257 weights)"
pm_lerp_at!(k_pm_lerp_178, 178);
// @ob id=K.pm_lerp_179 props=C18 kind=complete tier=thorough timeout=600 fns=sw_composite::lerp
// @+ desc="lerp(d,b,179) keeps r,g,b <= a for all premultiplied d,b (one of the 257 weights)"
pm_lerp_at!(k_pm_lerp_179, 179);
// @ob id=K.pm_lerp_180 props=C18 kind=complete tier=thorough timeout=600 fns=sw_composite::lerp
// @+ desc="lerp(d,b,180) keeps r,g,b <= a for all premultiplied d,b (one of the 257 weights)"
pm_lerp_at!(k_pm_lerp_180, 180);
// @ob id=K.pm_lerp_181 props=C18 kind=complete tier=thorough timeout=600 fns=sw_composite::lerp
// @+ desc="lerp(d,b,181) keeps r,g,b <= a for all premultiplied d,b (one of the 257 weights)"
pm_lerp_at!(k_pm_lerp_181, 181);
// @ob id=K.pm_lerp_182 props=C18 kind=complete tier=thorough timeout=600 fns=sw_composite::lerp
// @+ desc="lerp(d,b,182) keeps r,g,b <= a for all premultiplied d,b (one of the 257 weights)"
pm_lerp_at!(k_pm_lerp_182, 182);
// @ob id=K.pm_lerp_183 props=C18 kind=complete tier=thorough timeout=600 fns=sw_composite::lerp
// @+ desc="lerp(d,b,183) keeps r,g,b <= a for all premultiplied d,b (one of the 257 weights)"
pm_lerp_at!(k_pm_lerp_183, 183);
// @ob id=K.pm_lerp_184 props=C18 kind=complete tier=thorough timeout=600 fns=sw_composite::lerp
// @+ desc="lerp(d,b,184) keeps r,g,b <= a for all premultiplied d,b (one of the 257 weights)"
pm_lerp_at!(k_pm_lerp_184, 184);
// @ob id=K.pm_lerp_185 props=C18 kind=complete tier=thorough timeout=600 fns=sw_composite::lerp
// @+ desc="lerp(d,b,185) keeps r,g,b <= a for all premultiplied d,b (one of the 257 weights)"
pm_lerp_at!(k_pm_lerp_185, 185);
// @ob id=K.pm_lerp_186 props=C18 kind=complete tier=thorough timeout=600 fns=sw_composite::lerp
// @+ desc="lerp(d,b,186) keeps r,g,b <= a for all premultiplied d,b (one of the 257 weights)"
pm_lerp_at!(k_pm_lerp_186, 186);
// @ob id=K.pm_lerp_187 props=C18 kind=complete tier=thorough timeout=600 fns=sw_composite::lerp
// @+ desc="lerp(d,b,187) keeps r,g,b <= a for all premultiplied d,b (one of the 257 weights)"
pm_lerp_at!(k_pm_lerp_187, 187);
// @ob id=K.pm_lerp_188 props=C18 kind=complete tier=thorough timeout=600 fns=sw_composite::lerp
// @+ desc="lerp(d,b,188) keeps r,g,b <= a for all premultiplied d,b (one of the 257 weights)"
pm_lerp_at!(k_pm_lerp_188, 188);
// @ob id=K.pm_lerp_189 props=C18 kind=complete tier=thorough timeout=600 fns=sw_composite::lerp
// @+ desc="lerp(d,b,189) keeps r,g,b <= a for all premultiplied d,b (one of the 257 weights)"
pm_lerp_at!(k_pm_lerp_189, 189);
// @ob id=K.pm_lerp_190 props=C18 kind=complete tier=thorough timeout=600 fns=sw_composite::lerp
// @+ desc="lerp(d,b,190) keeps r,g,b <= a for all premultiplied d,b (one of the 257 weights)"
pm_lerp_at!(k_pm_lerp_190, 190);
// @ob id=K.pm_lerp_191 props=C18 kind=complete tier=thorough timeout=600 fns=sw_composite::lerp
// @+ desc="lerp(d,b,191) keeps r,g,b <= a for all premultiplied d,b (one of the 257 weights)"
pm_lerp_at!(k_pm_lerp_191, 191);
// @ob id=K.pm_lerp_192 props=C18 kind=complete tier=thorough timeout=600 fns=sw_composite::lerp
// @+ desc="lerp(d,b,192) keeps r,g,b <= a for all premultiplied d,b (one of the 257 weights)"
pm_lerp_at!(k_pm_lerp_192, 192);
// @ob id=K.pm_lerp_193 props=C18 kind=complete tier=thorough timeout=600 fns=sw_composite::lerp
// @+ desc="lerp(d,b,193) keeps r,g,b <= a for all premultiplied d,b (one of the 257 weights)"
pm_lerp_at!(k_pm_lerp_193, 193);
// @ob id=K.pm_lerp_194 props=C18 kind=complete tier=thorough timeout=600 fns=sw_composite::lerp
// @+ desc="lerp(d,b,194) keeps r,g,b <= a for all premultiplied d,b (one of the 257 weights)"
pm_lerp_at!(k_pm_lerp_194, 194);
// @ob id=K.pm_lerp_195 props=C18 kind=complete tier=thorough timeout=600 fns=sw_composite::lerp
// @+ desc="lerp(d,b,195) keeps r,g,b <= a for all premultiplied d,b (one of the 257 weights)"
pm_lerp_at!(k_pm_lerp_195, 195);
// @ob id=K.pm_lerp_196 props=C18 kind=complete tier=thorough timeout=600 fns=sw_composite::lerp
// @+ desc="lerp(d,b,196) keeps r,g,b <= a for all premultiplied d,b (one of the 257 weights)"
pm_lerp_at!(k_pm_lerp_196, 196);
// @ob id=K.pm_lerp_197 props=C18 kind=complete tier=thorough timeout=600 fns=sw_composite::lerp
// @+ desc="lerp(d,b,197) keeps r,g,b <= a for all premultiplied d,b (one of the 257 weights)"
pm_lerp_at!(k_pm_lerp_197, 197);
// @ob id=K.pm_lerp_198 props=C18 kind=complete tier=thorough timeout=600 fns=sw_composite::lerp
// @+ desc="lerp(d,b,198) keeps r,g,b <= a for all premultiplied d,b (one of the 257 weights)"
pm_lerp_at!(k_pm_lerp_198, 198);
// @ob id=K.pm_lerp_199 props=C18 kind=complete tier=thorough timeout=600 fns=sw_composite::lerp
// @+ desc="lerp(d,b,199) keeps r,g,b <= a for all premultiplied d,b (one of the 257 weights)"
pm_lerp_at!(k_pm_lerp_199, 199);
// @ob id=K.pm_lerp_200 props=C18 kind=complete tier=thorough timeout=600 fns=sw_composite::lerp
// @+ desc="lerp(d,b,200) keeps r,g,b <= a for all premultiplied d,b (one of the 257 weights)"
pm_lerp_at!(k_pm_lerp_200, 200);
// @ob id=K.pm_lerp_201 props=C18 kind=complete tier=thorough timeout=600 fns=sw_composite::lerp
// @+ desc="lerp(d,b,201) keeps r,g,b <= a for all premultiplied d,b (one of the 257 weights)"
pm_lerp_at!(k_pm_lerp_201, 201);
// @ob id=K.pm_lerp_202 props=C18 kind=complete tier=thorough timeout=600 fns=sw_composite::lerp
// @+ desc="lerp(d,b,202) keeps r,g,b <= a for all premultiplied d,b (one of the 257 weights)"
pm_lerp_at!(k_pm_lerp_202, 202);
// @ob id=K.pm_lerp_203 props=C18 kind=complete tier=thorough timeout=600 fns=sw_composite::lerp
// @+ desc="lerp(d,b,203) keeps r,g,b <= a for all premultiplied d,b (one of the 257 weights)"
pm_lerp_at!(k_pm_lerp_203, 203);
// @ob id=K.pm_lerp_204 props=C18 kind=complete tier=thorough timeout=600 fns=sw_composite::lerp
// @+ desc="lerp(d,b,204) keeps r,g,b <= a for all premultiplied d,b (one of the 257 weights)"
pm_lerp_at!(k_pm_lerp_204, 204);
// @ob id=K.pm_lerp_205 props=C18 kind=complete tier=thorough timeout=600 fns=sw_composite::lerp
// @+ desc="lerp(d,b,205) keeps r,g,b <= a for all premultiplied d,b (one of the 257 weights)"
pm_lerp_at!(k_pm_lerp_205, 205);
// @ob id=K.pm_lerp_206 props=C18 kind=complete tier=thorough timeout=600 fns=sw_composite::lerp
// @+ desc="lerp(d,b,206) keeps r,g,b <= a for all premultiplied d,b (one of the 257 weights)"
pm_lerp_at!(k_pm_lerp_206, 206);
// @ob id=K.pm_lerp_207 props=C18 kind=complete tier=thorough timeout=600 fns=sw_composite::lerp
// @+ desc="lerp(d,b,207) keeps r,g,b <= a for all premultiplied d,b (one of the 257 weights)"
pm_lerp_at!(k_pm_lerp_207, 207);
// @ob id=K.pm_lerp_208 props=C18 kind=complete tier=thorough timeout=600 fns=sw_composite::lerp
// @+ desc="lerp(d,b,208) keeps r,g,b <= a for all premultiplied d,b (one of the 257 weights)"
pm_lerp_at!(k_pm_lerp_208, 208);
// @ob id=K.pm_lerp_209 props=C18 kind=complete tier=thorough timeout=600 fns=sw_composite::lerp
// @+ desc="lerp(d,b,209) keeps r,g,b <= a for all premultiplied d,b (one of the 257 weights)"
pm_lerp_at!(k_pm_lerp_209, 209);
// @ob id=K.pm_lerp_210 props=C18 kind=complete tier=thorough timeout=600 fns=sw_composite::lerp
// @+ desc="lerp(d,b,210) keeps r,g,b <= a for all premultiplied d,b (one of the 257 weights)"
pm_lerp_at!(k_pm_lerp_210, 210);
// @ob id=K.pm_lerp_211 props=C18 kind=complete tier=thorough timeout=600 fns=sw_composite::lerp
// @+ desc="lerp(d,b,211) keeps r,g,b <= a for all premultiplied d,b (one of the 257 weights)"
pm_lerp_at!(k_pm_lerp_211, 211);
// @ob id=K.pm_lerp_212 props=C18 kind=complete tier=thorough timeout=600 fns=sw_composite::lerp
// @+ desc="lerp(d,b,212) keeps r,g,b <= a for all premultiplied d,b (one of the 257 weights)"
pm_lerp_at!(k_pm_lerp_212, 212);
// @ob id=K.pm_lerp_213 props=C18 kind=complete tier=thorough timeout=600 fns=sw_composite::lerp
// @+ desc="lerp(d,b,213) keeps r,g,b <= a for all premultiplied d,b (one of the 257 weights)"
pm_lerp_at!(k_pm_lerp_213, 213);
// @ob id=K.pm_lerp_214 props=C18 kind=complete tier=thorough timeout=600 fns=sw_composite::lerp
// @+ desc="lerp(d,b,214) keeps r,g,b <= a for all premultiplied d,b (one of the 257 weights)"
pm_lerp_at!(k_pm_lerp_214, 214);
// @ob id=K.pm_lerp_215 props=C18 kind=complete tier=thorough timeout=600 fns=sw_composite::lerp
// @+ desc="lerp(d,b,215) keeps r,g,b <= a for all premultiplied d,b (one of the 257 weights)"
pm_lerp_at!(k_pm_lerp_215, 215);
// @ob id=K.pm_lerp_216 props=C18 kind=complete tier=thorough timeout=600 fns=sw_composite::lerp
// @+ desc="lerp(d,b,216) keeps r,g,b <= a for all premultiplied d,b (one of the 257 weights)"
pm_lerp_at!(k_pm_lerp_216, 216);
// @ob id=K.pm_lerp_217 props=C18 kind=complete tier=thorough timeout=600 fns=sw_composite::lerp
// @+ desc="lerp(d,b,217) keeps r,g,b <= a for all premultiplied d,b (one of the 257 weights)"
pm_lerp_at!(k_pm_lerp_217, 217);
// @ob id=K.pm_lerp_218 props=C18 kind=complete tier=thorough timeout=600 fns=sw_composite::lerp
// @+ desc="lerp(d,b,218) keeps r,g,b <= a for all premultiplied d,b (one of the 257 weights)"
pm_lerp_at!(k_pm_lerp_218, 218);
// @ob id=K.pm_lerp_219 props=C18 kind=complete tier=thorough timeout=600 fns=sw_composite::lerp
// @+ desc="lerp(d,b,219) keeps r,g,b <= a for all premultiplied d,b (one of the 257 weights)"
pm_lerp_at!(k_pm_lerp_219, 219);
// @ob id=K.pm_lerp_220 props=C18 kind=complete tier=thorough timeout=600 fns=sw_composite::lerp
// @+ desc="lerp(d,b,220) keeps r,g,b <= a for all premultiplied d,b (one of the 257 weights)"
pm_lerp_at!(k_pm_lerp_220, 220);
// @ob id=K.pm_lerp_221 props=C18 kind=complete tier=thorough timeout=600 fns=sw_composite::lerp
// @+ desc="lerp(d,b,221) keeps r,g,b <= a for all premultiplied d,b (one of the 257 weights)"
pm_lerp_at!(k_pm_lerp_221, 221);
// @ob id=K.pm_lerp_222 props=C18 kind=complete tier=thorough timeout=600 fns=sw_composite::lerp
// @+ desc="lerp(d,b,222) keeps r,g,b <= a for all premultiplied d,b (one of the 257 weights)"
pm_lerp_at!(k_pm_lerp_222, 222);
// @ob id=K.pm_lerp_223 props=C18 kind=complete tier=thorough timeout=600 fns=sw_composite::lerp
// @+ desc="lerp(d,b,223) keeps r,g,b <= a for all premultiplied d,b (one of the 257 weights)"
pm_lerp_at!(k_pm_lerp_223, 223);
// @ob id=K.pm_lerp_224 props=C18 kind=complete tier=thorough timeout=600 fns=sw_composite::lerp
// @+ desc="lerp(d,b,224) keeps r,g,b <= a for all premultiplied d,b (one of the 257 weights)"
pm_lerp_at!(k_pm_lerp_224, 224);
// @ob id=K.pm_lerp_225 props=C18 kind=complete tier=thorough timeout=600 fns=sw_composite::lerp
// @+ desc="lerp(d,b,225) keeps r,g,b <= a for all premultiplied d,b (one of the 257 weights)"
pm_lerp_at!(k_pm_lerp_225, 225);
// @ob id=K.pm_lerp_226 props=C18 kind=complete tier=thorough timeout=600 fns=sw_composite::lerp
// @+ desc="lerp(d,b,226) keeps r,g,b <= a for all premultiplied d,b (one of the 257 weights)"
pm_lerp_at!(k_pm_lerp_226, 226);
// @ob id=K.pm_lerp_227 props=C18 kind=complete tier=thorough timeout=600 fns=sw_composite::lerp
// @+ desc="lerp(d,b,227) keeps r,g,b <= a for all premultiplied d,b (one of the 257 weights)"
pm_lerp_at!(k_pm_lerp_227, 227);
// @ob id=K.pm_lerp_228 props=C18 kind=complete tier=thorough timeout=600 fns=sw_composite::lerp
// @+ desc="lerp(d,b,228) keeps r,g,b <= a for all premultiplied d,b (one of the 257 weights)"
pm_lerp_at!(k_pm_lerp_228, 228);
// @ob id=K.pm_lerp_229 props=C18 kind=complete tier=thorough timeout=600 fns=sw_composite::lerp
// @+ desc="lerp(d,b,229) keeps r,g,b <= a for all premultiplied d,b (one of the 257 weights)"
pm_lerp_at!(k_pm_lerp_229, 229);
// @ob id=K.pm_lerp_230 props=C18 kind=complete tier=thorough timeout=600 fns=sw_composite::lerp
// @+ desc="lerp(d,b,230) keeps r,g,b <= a for all premultiplied d,b (one of the 257 weights)"
pm_lerp_at!(k_pm_lerp_230, 230);
// @ob id=K.pm_lerp_231 props=C18 kind=complete tier=thorough timeout=600 fns=sw_composite::lerp
// @+ desc="lerp(d,b,231) keeps r,g,b <= a for all premultiplied d,b (one of the 257 weights)"
pm_lerp_at!(k_pm_lerp_231, 231);
// @ob id=K.pm_lerp_232 props=C18 kind=complete tier=thorough timeout=600 fns=sw_composite::lerp
// @+ desc="lerp(d,b,232) keeps r,g,b <= a for all premultiplied d,b (one of the 257 weights)"
pm_lerp_at!(k_pm_lerp_232, 232);
// @ob id=K.pm_lerp_233 props=C18 kind=complete tier=thorough timeout=600 fns=sw_composite::lerp
// @+ desc="lerp(d,b,233) keeps r,g,b <= a for all premultiplied d,b (one of the 257 weights)"
pm_lerp_at!(k_pm_lerp_233, 233);
// @ob id=K.pm_lerp_234 props=C18 kind=complete tier=thorough timeout=600 fns=sw_composite::lerp
// @+ desc="lerp(d,b,234) keeps r,g,b <= a for all premultiplied d,b (one of the 257 weights)"
pm_lerp_at!(k_pm_lerp_234, 234);
// @ob id=K.pm_lerp_235 props=C18 kind=complete tier=thorough timeout=600 fns=sw_composite::lerp
// @+ desc="lerp(d,b,235) keeps r,g,b <= a for all premultiplied d,b (one of the 257 weights)"
pm_lerp_at!(k_pm_lerp_235, 235);
// @ob id=K.pm_lerp_236 props=C18 kind=complete tier=thorough timeout=600 fns=sw_composite::lerp
// @+ desc="lerp(d,b,236) keeps r,g,b <= a for all premultiplied d,b (one of the 257 weights)"
pm_lerp_at!(k_pm_lerp_236, 236);
// @ob id=K.pm_lerp_237 props=C18 kind=complete tier=thorough timeout=600 fns=sw_composite::lerp
// @+ desc="lerp(d,b,237) keeps r,g,b <= a for all premultiplied d,b (one of the 257 weights)"
pm_lerp_at!(k_pm_lerp_237, 237);
// @ob id=K.pm_lerp_238 props=C18 kind=complete tier=thorough timeout=600 fns=sw_composite::lerp
// @+ desc="lerp(d,b,238) keeps r,g,b <= a for all premultiplied d,b (one of the 257 weights)"
pm_lerp_at!(k_pm_lerp_238, 238);
// @ob id=K.pm_lerp_239 props=C18 kind=complete tier=thorough timeout=600 fns=sw_composite::lerp
// @+ desc="lerp(d,b,239) keeps r,g,b <= a for all premultiplied d,b (one of the 257 weights)"
pm_lerp_at!(k_pm_lerp_239, 239);
// @ob id=K.pm_lerp_240 props=C18 kind=complete tier=thorough timeout=600 fns=sw_composite::lerp
// @+ desc="lerp(d,b,240) keeps r,g,b <= a for all premultiplied d,b (one of the 257 weights)"
pm_lerp_at!(k_pm_lerp_240, 240);
// @ob id=K.pm_lerp_241 props=C18 kind=complete tier=thorough timeout=600 fns=sw_composite::lerp
// @+ desc="lerp(d,b,241) keeps r,g,b <= a for all premultiplied d,b (one of the 257 weights)"
pm_lerp_at!(k_pm_lerp_241, 241);
// @ob id=K.pm_lerp_242 props=C18 kind=complete tier=thorough timeout=600 fns=sw_composite::lerp
// @+ desc="lerp(d,b,242) keeps r,g,b <= a for all premultiplied d,b (one of the 257 weights)"
pm_lerp_at!(k_pm_lerp_242, 242);
// @ob id=K.pm_lerp_243 props=C18 kind=complete tier=thorough timeout=600 fns=sw_composite::lerp
// @+ desc="lerp(d,b,243) keeps r,g,b <= a for all premultiplied d,b (one of the 257 weights)"
pm_lerp_at!(k_pm_lerp_243, 243);
// @ob id=K.pm_lerp_244 props=C18 kind=complete tier=thorough timeout=600 fns=sw_composite::lerp
// @+ desc="lerp(d,b,244) keeps r,g,b <= a for all premultiplied d,b (one of the 257 weights)"
pm_lerp_at!(k_pm_lerp_244, 244);
// @ob id=K.pm_lerp_245 props=C18 kind=complete tier=thorough timeout=600 fns=sw_composite::lerp
// @+ desc="lerp(d,b,245) keeps r,g,b <= a for all premultiplied d,b (one of the 257 weights)"
pm_lerp_at!(k_pm_lerp_245, 245);
// @ob id=K.pm_lerp_246 props=C18 kind=complete tier=thorough timeout=600 fns=sw_composite::lerp
// @+ desc="lerp(d,b,246) keeps r,g,b <= a for all premultiplied d,b (one of the 257 weights)"
pm_lerp_at!(k_pm_lerp_246, 246);
// @ob id=K.pm_lerp_247 props=C18 kind=complete tier=thorough timeout=600 fns=sw_composite::lerp
// @+ desc="lerp(d,b,247) keeps r,g,b <= a for all premultiplied d,b (one of the 257 weights)"
pm_lerp_at!(k_pm_lerp_247, 247);
// @ob id=K.pm_lerp_248 props=C18 kind=complete tier=thorough timeout=600 fns=sw_composite::lerp
// @+ desc="lerp(d,b,248) keeps r,g,b <= a for all premultiplied d,b (one of the 257 weights)"
pm_lerp_at!(k_pm_lerp_248, 248);
// @ob id=K.pm_lerp_249 props=C18 kind=complete tier=thorough timeout=600 fns=sw_composite::lerp
// @+ desc="lerp(d,b,249) keeps r,g,b <= a for all premultiplied d,b (one of the 257 weights)"
pm_lerp_at!(k_pm_lerp_249, 249);
// @ob id=K.pm_lerp_250 props=C18 kind=complete tier=thorough timeout=600 fns=sw_composite::lerp
// @+ desc="lerp(d,b,250) keeps r,g,b <= a for all premultiplied d,b (one of the 257 weights)"
pm_lerp_at!(k_pm_lerp_250, 250);
// @ob id=K.pm_lerp_251 props=C18 kind=complete tier=thorough timeout=600 fns=sw_composite::lerp
// @+ desc="lerp(d,b,251) keeps r,g,b <= a for all premultiplied d,b (one of the 257 weights)"
pm_lerp_at!(k_pm_lerp_251, 251);
// @ob id=K.pm_lerp_252 props=C18 kind=complete tier=thorough timeout=600 fns=sw_composite::lerp
// @+ desc="lerp(d,b,252) keeps r,g,b <= a for all premultiplied d,b (one of the 257 weights)"
pm_lerp_at!(k_pm_lerp_252, 252);
// @ob id=K.pm_lerp_253 props=C18 kind=complete tier=thorough timeout=600 fns=sw_composite::lerp
// @+ desc="lerp(d,b,253) keeps r,g,b <= a for all premultiplied d,b (one of the 257 weights)"
pm_lerp_at!(k_pm_lerp_253, 253);
// @ob id=K.pm_lerp_254 props=C18 kind=complete tier=thorough timeout=600 fns=sw_composite::lerp
// @+ desc="lerp(d,b,254) keeps r,g,b <= a for all premultiplied d,b (one of the 257 weights)"
pm_lerp_at!(k_pm_lerp_254, 254);
// @ob id=K.pm_lerp_255 props=C18 kind=complete tier=quick timeout=600 fns=sw_composite::lerp
// @+ desc="lerp(d,b,255) keeps r,g,b <= a for all premultiplied d,b (one of the 257 weights)"
pm_lerp_at!(k_pm_lerp_255, 255);
// @ob id=K.pm_lerp_256 props=C18 kind=complete tier=quick timeout=600 fns=sw_composite::lerp
// @+ desc="lerp(d,b,256) keeps r,g,b <= a for all premultiplied d,b (one of the 257 weights)"
pm_lerp_at!(k_pm_lerp_256, 256);

// ---------------------------------------------------------------- image source dispatch (C13 #4)
fn shader_kind(s: &ShaderStorage) -> u8 {
    match s {
        ShaderStorage::None => 0, ShaderStorage::Solid(_) => 1, ShaderStorage::ImagePadAlpha(_) => 2, ShaderStorage::ImageRepeatAlpha(_) => 3,
        ShaderStorage::TransformedNearestPadImageAlpha(_) => 4, ShaderStorage::TransformedNearestRepeatImageAlpha(_) => 5,
        ShaderStorage::TransformedPadImageAlpha(_) => 6, ShaderStorage::TransformedRepeatImageAlpha(_) => 7,
        ShaderStorage::TransformedPadImage(_) => 8, ShaderStorage::TransformedRepeatImage(_) => 9,
        ShaderStorage::TransformedNearestPadImage(_) => 10, ShaderStorage::TransformedNearestRepeatImage(_) => 11,
        _ => 12,
    }
}
fn image_case(pad: bool, bilinear: bool, opaque: bool, integer: bool) -> u8 {
    let data = [0xff102030u32; 4];
    let img = Image { width: 2, height: 2, data: &data };
    let ti = if integer { Transform::translation(3., -2.) } else { Transform::scale(0.5, 0.5) };
    let src = Source::Image(img, if pad { ExtendMode::Pad } else { ExtendMode::Repeat }, if bilinear { FilterMode::Bilinear } else { FilterMode::Nearest }, Transform::translation(1., 1.));
    let mut storage = ShaderStorage::None;
    {
        let _s = choose_shader(&ti, &src, if opaque { 1.0 } else { 0.5 }, &mut storage);
    }
    if let ShaderStorage::ImagePadAlpha(s) = &storage { assert!(s.offset_x == 4 && s.offset_y == -1 && s.alpha == if opaque { 256 } else { 129 }, "integer fast path: offsets = combined translation, alpha256"); }
    if let ShaderStorage::ImageRepeatAlpha(s) = &storage { assert!(s.offset_x == 4 && s.offset_y == -1 && s.alpha == if opaque { 256 } else { 129 }, "integer fast path: offsets = combined translation, alpha256"); }
    shader_kind(&storage)
}
// @ob id=K.choose_shader_image props=C13,C03 kind=bounded:16-concrete-configurations tier=quick timeout=900 fns=choose_shader
// @+ desc="choose_shader image arms on all 16 combinations of (Pad|Repeat, Bilinear|Nearest, alpha 1 | 0.5, combined transform integer translation | scale): the integer-translation fast path is taken exactly when inverse-CTM ∘ source transform is a pure integer translation, with offsets (tx,ty) and alpha256 = alpha byte + 1; otherwise the variant is the one named by (extend, filter, alpha != 255)"
#[kani::proof]
#[kani::unwind(6)]
fn k_choose_shader_image() {
    // integer translation -> fast paths whatever the filter / alpha
    assert!(image_case(true, true, true, true) == 2 && image_case(true, false, false, true) == 2, "Pad + integer translation -> ImagePadAlpha");
    assert!(image_case(false, true, true, true) == 3 && image_case(false, false, false, true) == 3, "Repeat + integer translation -> ImageRepeatAlpha");
    assert!(image_case(true, true, false, true) == 2 && image_case(true, false, true, true) == 2 && image_case(false, true, false, true) == 3 && image_case(false, false, true, true) == 3, "fast path independent of filter and alpha");
    // general transform
    assert!(image_case(true, true, true, false) == 8, "Pad Bilinear opaque -> TransformedPadImage");
    assert!(image_case(true, true, false, false) == 6, "Pad Bilinear alpha -> TransformedPadImageAlpha");
    assert!(image_case(true, false, true, false) == 10, "Pad Nearest opaque -> TransformedNearestPadImage");
    assert!(image_case(true, false, false, false) == 4, "Pad Nearest alpha -> TransformedNearestPadImageAlpha");
    assert!(image_case(false, true, true, false) == 9, "Repeat Bilinear opaque -> TransformedRepeatImage");
    assert!(image_case(false, true, false, false) == 7, "Repeat Bilinear alpha -> TransformedRepeatImageAlpha");
    assert!(image_case(false, false, true, false) == 11, "Repeat Nearest opaque -> TransformedNearestRepeatImage");
    assert!(image_case(false, false, false, false) == 5, "Repeat Nearest alpha -> TransformedNearestRepeatImageAlpha");
    kani::cover!(true);
}

// ---------------------------------------------------------------- recorders for the mask blitter constructors (used by K.fill_driver)
pub static mut MASK_NEW_LOG: (u8, i32, i32, i32, i32) = (0, 0, 0, 0, 0);
pub fn mask_blitter_new_rec(x: i32, y: i32, width: i32, height: i32) -> MaskBlitter {
    unsafe { MASK_NEW_LOG = (1, x, y, width, height); }
    MaskBlitter { x: x * SCALE, y: y * SCALE, width, buf: vec![0; (width * height) as usize + 1] }
}
pub fn super_blitter_new_rec(x: i32, y: i32, width: i32, height: i32) -> MaskSuperBlitter {
    unsafe { MASK_NEW_LOG = (2, x, y, width, height); }
    MaskSuperBlitter { x: x * SCALE, y: y * SCALE, width, buf: vec![0; (width * height) as usize + 1] }
}

// ---------------------------------------------------------------- transformed image shaders (C13 #6)
// @ob id=K.transformed_nearest_shader props=C13 kind=bounded:count<=3,image=2x2 tier=quick timeout=900 fns=TransformedNearestImageShader::shade_span,TransformedNearestImageAlphaShader::shade_span
// @+ desc="TransformedNearestImageShader / ...AlphaShader::shade_span (Pad fetch, 2x2 image with symbolic texels, a fixed non-trivial 16.16 matrix, symbolic x,y in 0..1000, count<=3): dest[i] = fetch_nearest(_alpha)(image, xfm.transform(x+i, y)) for i<count, entries >= count untouched -- one fetch per pixel at consecutive x; fetch_* and MatrixFixedPoint::transform are sw-composite's (named, not re-specified)"
#[kani::proof]
#[kani::unwind(5)]
fn k_transformed_nearest_shader() {
    let data: [u32; 4] = kani::any();
    let img = Image { width: 2, height: 2, data: &data };
    let t = Transform::new(0.5, 0.25, -0.25, 0.5, 3.0, -2.0);
    let x: i32 = kani::any();
    let y: i32 = kani::any();
    kani::assume(x >= 0 && x <= 1000 && y >= 0 && y <= 1000);
    let count: usize = kani::any();
    kani::assume(count <= 3);
    let s1 = TransformedNearestImageShader::<PadFetch>::new(&img, &t);
    let mut d1 = [0xdeadbeefu32; 4];
    s1.shade_span(x, y, &mut d1[..], count);
    let alpha: u32 = kani::any();
    kani::assume(alpha <= 255);
    let s2 = TransformedNearestImageAlphaShader::<PadFetch>::new(&img, &t, alpha);
    let mut d2 = [0xdeadbeefu32; 4];
    s2.shade_span(x, y, &mut d2[..], count);
    let mut i = 0;
    while i < 4 {
        if i < count {
            let p = s1.xfm.transform((x + i as i32) as u16, y as u16);
            assert!(d1[i] == fetch_nearest::<PadFetch>(&img, p.x, p.y), "pixel i samples the image at xfm(x+i, y)");
            let p2 = s2.xfm.transform((x + i as i32) as u16, y as u16);
            assert!(d2[i] == fetch_nearest_alpha::<PadFetch>(&img, p2.x, p2.y, alpha_to_alpha256(alpha)), "alpha variant: same position, scaled by alpha256");
        } else {
            assert!(d1[i] == 0xdeadbeef && d2[i] == 0xdeadbeef, "entries beyond count untouched");
        }
        i += 1;
    }
    kani::cover!(count == 3);
}

// ---------------------------------------------------------------- Kani function contracts on the real fns (attrs.toml) and their modular use
// @ob id=K.contract_saturated_add props=C01,C07 kind=complete tier=quick timeout=300 fns=saturated_add
// @+ desc="Kani function contract attached to the real saturated_add (requires a+b <= 256, ensures result == min(a+b,255)), proved by proof_for_contract for all a,b"
#[kani::proof_for_contract(saturated_add)]
fn k_contract_saturated_add() {
    saturated_add(kani::any(), kani::any());
    kani::cover!(true);
}
// @ob id=K.contract_partial_alpha props=C01,C07 kind=complete tier=quick timeout=300 fns=coverage_to_partial_alpha
// @+ desc="Kani function contract attached to the real coverage_to_partial_alpha (requires 0 <= cells <= 15, ensures result == 16*cells), proved by proof_for_contract"
#[kani::proof_for_contract(coverage_to_partial_alpha)]
fn k_contract_partial_alpha() {
    coverage_to_partial_alpha(kani::any());
    kani::cover!(true);
}
// @ob id=K.mask_super_blit_span_modular props=C01,C02,C07 kind=bounded:width<=4,rows=2 tier=quick timeout=900 fns=MaskSuperBlitter::blit_span
// @+ desc="the same contract as K.mask_super_blit_span with saturated_add and coverage_to_partial_alpha replaced by their verified Kani contracts (stub_verified): blit_span is checked against its callees' contracts, not their bodies, and must establish their preconditions (cells <= 15, accumulated value <= 256) at every call site"
#[kani::proof]
#[kani::unwind(11)]
#[kani::stub_verified(saturated_add)]
#[kani::stub_verified(coverage_to_partial_alpha)]
fn k_mask_super_blit_span_modular() { mask_super_contract::<9>(4); }

// ---------------------------------------------------------------- half-pixel conjugation of the sampling matrix (C13 #6)
fn mfp_eq(a: &MatrixFixedPoint, b: &MatrixFixedPoint) -> bool { a.xx == b.xx && a.xy == b.xy && a.yx == b.yx && a.yy == b.yy && a.x0 == b.x0 && a.y0 == b.y0 }
// @ob id=K.transformed_shader_matrix props=C13 kind=bounded:3-concrete-matrices tier=quick timeout=600 fns=TransformedImageShader::new,TransformedImageAlphaShader::new,TransformedNearestImageShader::new,TransformedNearestImageAlphaShader::new,transform_to_fixed
// @+ desc="all four transformed image shaders (nearest / bilinear, with / without alpha) build the SAME 16.16 sampling matrix for a given transform, and it is the half-pixel conjugate: pixel (x,y) samples the image at M·(x+0.5, y+0.5) − (0.5, 0.5), i.e. linear part unchanged and offset = m31 + 0.5·(m11+m21) − 0.5 (likewise y); checked exactly on a 2x shrink, a mirror and a translation (all dyadic, so the fixed-point values are exact)"
#[kani::proof]
#[kani::unwind(4)]
fn k_transformed_shader_matrix() {
    let data = [0u32; 4];
    let img = Image { width: 2, height: 2, data: &data };
    let ts = [Transform::new(2., 0., 0., 2., 0., 0.), Transform::new(-1., 0., 0., 1., 8., 0.), Transform::new(1., 0., 0., 1., 0.25, -3.5)];
    let mut k = 0;
    while k < 3 {
        let t = ts[k];
        let a = TransformedImageShader::<PadFetch>::new(&img, &t);
        let b = TransformedImageAlphaShader::<RepeatFetch>::new(&img, &t, 128);
        let c = TransformedNearestImageShader::<RepeatFetch>::new(&img, &t);
        let d = TransformedNearestImageAlphaShader::<PadFetch>::new(&img, &t, 128);
        assert!(mfp_eq(&a.xfm, &b.xfm) && mfp_eq(&a.xfm, &c.xfm) && mfp_eq(&a.xfm, &d.xfm), "all four shader kinds sample at the same position");
        let fx = |v: f32| float_to_fixed(v);
        assert!(a.xfm.xx == fx(t.m11) && a.xfm.xy == fx(t.m21) && a.xfm.yx == fx(t.m12) && a.xfm.yy == fx(t.m22), "linear part unchanged");
        assert!(a.xfm.x0 == fx(t.m31 + 0.5 * (t.m11 + t.m21) - 0.5) && a.xfm.y0 == fx(t.m32 + 0.5 * (t.m12 + t.m22) - 0.5), "offset = M(pixel centre) - half a texel");
        assert!(b.alpha == 129 && d.alpha == 129, "alpha256 = alpha byte + 1");
        k += 1;
    }
    kani::cover!(true);
}

// ---------------------------------------------------------------- where a source is sampled under a transform (C11: sources are fixed in user space)
pub static mut TTF_LOG: (u32, [u32; 6]) = (0, [0; 6]);
pub fn transform_to_fixed_rec(transform: &Transform) -> MatrixFixedPoint {
    unsafe {
        TTF_LOG.0 += 1;
        TTF_LOG.1 = [transform.m11.to_bits(), transform.m12.to_bits(), transform.m21.to_bits(), transform.m22.to_bits(), transform.m31.to_bits(), transform.m32.to_bits()];
    }
    MatrixFixedPoint { xx: 0x10000, xy: 0, yx: 0, yy: 0x10000, x0: 0, y0: 0 }
}
fn ttf_is(m: [f32; 6]) -> bool {
    let l = unsafe { &TTF_LOG };
    l.0 == 1 && l.1[0] == m[0].to_bits() && l.1[1] == m[1].to_bits() && l.1[2] == m[2].to_bits() && l.1[3] == m[3].to_bits() && l.1[4] == m[4].to_bits() && l.1[5] == m[5].to_bits()
}
// inverse CTM ti(p) = (0.5x − 0.25y + 1, 0.25x + 0.5y + 2); the source's own transform own(q) = (2qx + 3, 4qy − 2); they do not commute.
// The property: pixel (x,y) is coloured by the source evaluated at own(ti(x+0.5, y+0.5)) = (x − 0.5y + 5.25, x + 2y + 7.5)   [all dyadic: exact in f32]
fn sampling_ti() -> Transform { Transform::new(0.5, 0.25, -0.25, 0.5, 1., 2.) }
fn sampling_own() -> Transform { Transform::new(2., 0., 0., 4., 3., -2.) }
const SAMPLE_AT_CENTRE: [f32; 6] = [1., 1., -0.5, 2., 5.25, 7.5];
// image shaders address texel centres: the same map minus half a texel
const SAMPLE_AT_CENTRE_TEXEL: [f32; 6] = [1., 1., -0.5, 2., 4.75, 7.0];

fn sampling_gradient_case(k: usize) {
    let g = Gradient { stops: vec![GradientStop { position: 0., color: Color::new(255, 10, 20, 30) }] };
    let (ti, own) = (sampling_ti(), sampling_own());
    let src = match k {
        0 => Source::LinearGradient(g, Spread::Pad, own),
        1 => Source::RadialGradient(g, Spread::Repeat, own),
        2 => Source::TwoCircleRadialGradient(g, Spread::Pad, Point::new(0., 0.), 1., Point::new(4., 0.), 2., own),
        _ => Source::SweepGradient(g, Spread::Pad, 0., 360., own),
    };
    unsafe { TTF_LOG.0 = 0; }
    let mut storage = ShaderStorage::None;
    {
        let _s = choose_shader(&ti, &src, 1.0, &mut storage);
    }
    assert!(ttf_is(SAMPLE_AT_CENTRE), "gradient evaluated at own(ti(pixel centre))");
    let kind_ok = match (&storage, k) {
        (ShaderStorage::LinearGradient(_), 0) | (ShaderStorage::RadialGradient(_), 1) | (ShaderStorage::TwoCircleRadialGradient(_), 2) | (ShaderStorage::SweepGradient(_), 3) => true,
        _ => false,
    };
    assert!(kind_ok, "shader kind follows the source kind");
    kani::cover!(true);
}
// @ob id=K.choose_shader_sampling_linear props=C11 kind=bounded:one-concrete-transform-pair tier=quick timeout=900 fns=choose_shader,LinearGradientShader::new
// @+ desc="choose_shader's linear-gradient arm + the shader constructor, on a non-commuting (inverse CTM, source transform) pair: the float matrix handed to transform_to_fixed (recorder stub; its result goes unchanged into sw-composite's gradient source) is exactly pixel (x,y) -> own(ti(x+0.5, y+0.5)): the gradient is evaluated at T^-1 of the pixel centre, then through the source's own transform -- one matrix conversion"
#[kani::proof]
#[kani::unwind(258)]
#[kani::stub(transform_to_fixed, transform_to_fixed_rec)]
fn k_choose_shader_sampling_linear() { sampling_gradient_case(0); }
// @ob id=K.choose_shader_sampling_radial props=C11 kind=bounded:one-concrete-transform-pair tier=quick timeout=900 fns=choose_shader,RadialGradientShader::new
// @+ desc="choose_shader's radial-gradient arm + the shader constructor, on a non-commuting (inverse CTM, source transform) pair: the float matrix handed to transform_to_fixed (recorder stub; its result goes unchanged into sw-composite's gradient source) is exactly pixel (x,y) -> own(ti(x+0.5, y+0.5)): the gradient is evaluated at T^-1 of the pixel centre, then through the source's own transform -- one matrix conversion"
#[kani::proof]
#[kani::unwind(258)]
#[kani::stub(transform_to_fixed, transform_to_fixed_rec)]
fn k_choose_shader_sampling_radial() { sampling_gradient_case(1); }
// (the two-circle radial arm has the same shape but its harness did not finish in 400 s with any of the three SAT back ends: not registered, not covered)
// @ob id=K.choose_shader_sampling_sweep props=C11 kind=bounded:one-concrete-transform-pair tier=quick timeout=900 fns=choose_shader,SweepGradientShader::new
// @+ desc="choose_shader's sweep-gradient arm + the shader constructor, on a non-commuting (inverse CTM, source transform) pair: the float matrix handed to transform_to_fixed (recorder stub; its result goes unchanged into sw-composite's gradient source) is exactly pixel (x,y) -> own(ti(x+0.5, y+0.5)): the gradient is evaluated at T^-1 of the pixel centre, then through the source's own transform -- one matrix conversion"
#[kani::proof]
#[kani::unwind(258)]
#[kani::stub(transform_to_fixed, transform_to_fixed_rec)]
fn k_choose_shader_sampling_sweep() { sampling_gradient_case(3); }

// @ob id=K.choose_shader_sampling_image props=C11,C13 kind=bounded:one-concrete-transform-pair tier=quick timeout=900 fns=choose_shader,TransformedImageShader::new,TransformedImageAlphaShader::new,TransformedNearestImageShader::new,TransformedNearestImageAlphaShader::new
// @+ desc="choose_shader + the transformed image shader constructors, all 8 non-fast-path arms (Pad|Repeat x Bilinear|Nearest x alpha 1|0.5) on a non-commuting (inverse CTM, source transform) pair: the float matrix handed to transform_to_fixed (recorder stub) is exactly pixel (x,y) -> own(ti(x+0.5, y+0.5)) − (0.5, 0.5): the image is sampled at T^-1 of the pixel centre, then through the source's own transform, in texel-centre coordinates"
#[kani::proof]
#[kani::unwind(10)]
#[kani::stub(transform_to_fixed, transform_to_fixed_rec)]
fn k_choose_shader_sampling_image() {
    let data = [0xff102030u32; 4];
    let (ti, own) = (sampling_ti(), sampling_own());
    let mut k = 0;
    while k < 8 {
        let img = Image { width: 2, height: 2, data: &data };
        let src = Source::Image(img, if k & 1 == 0 { ExtendMode::Pad } else { ExtendMode::Repeat }, if k & 2 == 0 { FilterMode::Bilinear } else { FilterMode::Nearest }, own);
        unsafe { TTF_LOG.0 = 0; }
        let mut storage = ShaderStorage::None;
        {
            let _s = choose_shader(&ti, &src, if k & 4 == 0 { 1.0 } else { 0.5 }, &mut storage);
        }
        assert!(shader_kind(&storage) >= 4 && shader_kind(&storage) <= 11, "general transform: a transformed image shader");
        assert!(ttf_is(SAMPLE_AT_CENTRE_TEXEL), "image sampled at own(ti(pixel centre)) - half a texel");
        k += 1;
    }
    kani::cover!(true);
}
