// Lane K harness module injected as a child of `crate::rasterizer` (sees private items).
#![allow(unused_imports, dead_code, static_mut_refs)]
use super::*;
use crate::blitter::RasterBlitter;

// ------------------------------------------------------------------ fixed point (C01 #1)
// @ob id=K.f32_to_dot2 props=C01 kind=complete tier=quick timeout=120 fns=f32_to_dot2
// @+ desc="quarter-grid coordinates are represented exactly: for every integer q with |q| <= 2^17, f32_to_dot2(q as f32 / 4.0) == q; NaN maps to 0 and huge values saturate (no panic) for every f32"
#[kani::proof]
fn k_f32_to_dot2() {
    let q: i32 = kani::any();
    kani::assume(q >= -(1 << 17) && q <= (1 << 17));
    assert!(f32_to_dot2(q as f32 / 4.0) == q, "quarter-grid value exact");
    let f: f32 = kani::any();
    let r = f32_to_dot2(f);
    if f.is_nan() { assert!(r == 0, "NaN -> 0"); }
    kani::cover!(q == -7);
}

// ------------------------------------------------------------------ span emission (C01 #5)
pub const SPAN_CAP: usize = 6;
pub struct RecRaster { pub n: usize, pub spans: [(i32, i32, i32); SPAN_CAP] }
impl RasterBlitter for RecRaster {
    fn blit_span(&mut self, y: i32, x1: i32, x2: i32) {
        if self.n < SPAN_CAP { self.spans[self.n] = (y, x1, x2); }
        self.n += 1;
    }
}
fn round_q(x16: i32) -> i32 { (x16 + 0x2000) >> 14 }

fn mk_edge(fullx: i32, winding: i8) -> ActiveEdge {
    let mut e = ActiveEdge::new();
    e.fullx = fullx;
    e.winding = winding;
    e.y2 = 1000;
    e
}
fn link(edges: &mut [ActiveEdge], n: usize) -> Option<NonNull<ActiveEdge>> {
    // edges[0] -> edges[1] -> ... -> edges[n-1]
    let mut head: Option<NonNull<ActiveEdge>> = None;
    let mut i = n;
    while i > 0 {
        i -= 1;
        edges[i].next = head;
        head = Some(NonNull::from(&mut edges[i]));
    }
    head
}

// @ob id=K.scan_edges props=C01 kind=bounded:edges=3 tier=quick timeout=1800 fns=Rasterizer::scan_edges
// @+ desc="scan_edges on a sorted active list of 3 edges with symbolic 16.16 x and winding ±1, both winding rules: the emitted spans are exactly the maximal runs between consecutive edges on which the running winding sum is inside (odd for EvenOdd, non-zero for NonZero), from round_q(prev.fullx) (0 for a run entered left of the surface) to round_q(e.fullx), round_q(x)=(x+0x2000)>>14; edges with fullx<0 contribute winding only; nothing is emitted for runs starting at or beyond the width; every span has x1<=x2 and is on row cur_y"
#[kani::proof]
#[kani::unwind(12)]
fn k_scan_edges() { scan_edges_contract(3); }
// @ob id=K.scan_edges_2 props=C01 kind=bounded:edges=2 tier=quick timeout=900 fns=Rasterizer::scan_edges
// @+ desc="scan_edges, same contract, lists of exactly 2 edges"
#[kani::proof]
#[kani::unwind(12)]
fn k_scan_edges_2() { scan_edges_contract(2); }
// @ob id=K.scan_edges_1 props=C01 kind=bounded:edges<=1 tier=quick timeout=900 fns=Rasterizer::scan_edges
// @+ desc="scan_edges, same contract, lists of 0 or 1 edge"
#[kani::proof]
#[kani::unwind(12)]
fn k_scan_edges_1() { scan_edges_contract(1); scan_edges_contract(0); }
// @ob id=K.scan_edges_4 props=C01 kind=bounded:edges=4 tier=thorough timeout=3000 fns=Rasterizer::scan_edges
// @+ desc="scan_edges, same contract, lists of exactly 4 edges (self-intersecting / nested shapes: winding sums up to ±4)"
#[kani::proof]
#[kani::unwind(12)]
fn k_scan_edges_4() { scan_edges_contract(4); }
fn scan_edges_contract(n: usize) {
    let mut r = Rasterizer::new(2, 2); // width = 8 quarter pixels
    let xs: [i32; 4] = kani::any();
    let ws: [bool; 4] = kani::any();
    kani::assume(xs[0] >= -(40 << 14) && xs[3] <= (40 << 14) && xs[0] <= xs[1] && xs[1] <= xs[2] && xs[2] <= xs[3]);
    let mut edges = [mk_edge(xs[0], if ws[0] { 1 } else { -1 }), mk_edge(xs[1], if ws[1] { 1 } else { -1 }), mk_edge(xs[2], if ws[2] { 1 } else { -1 }), mk_edge(xs[3], if ws[3] { 1 } else { -1 })];
    r.active_edges = link(&mut edges, n);
    r.cur_y = kani::any();
    let cy = r.cur_y;
    let even_odd: bool = kani::any();
    let mut rec = RecRaster { n: 0, spans: [(0, 0, 0); SPAN_CAP] };
    r.scan_edges(&mut rec, if even_odd { Winding::EvenOdd } else { Winding::NonZero });
    // reference: walk the sorted list
    let mut exp = [(0i32, 0i32, 0i32); SPAN_CAP];
    let mut en = 0;
    let mut winding = 0i32;
    let mut prevx = 0i32;
    let mut started = false; // left-of-surface edges consumed
    let mut stop = false;
    let mut i = 0;
    while i < 4 {
        if i < n && !stop {
            let w = if ws[i] { 1 } else { -1 };
            if !started && xs[i] < 0 {
                winding += w;
            } else {
                started = true;
                let inside = if even_odd { winding & 1 != 0 } else { winding != 0 };
                if inside { exp[en] = (cy, round_q(prevx), round_q(xs[i])); en += 1; }
                if (xs[i] >> 14) >= 8 { stop = true; } else { winding += w; prevx = xs[i]; }
            }
        }
        i += 1;
    }
    assert!(rec.n == en, "number of spans");
    let mut k = 0;
    while k < 4 {
        if k < en {
            assert!(rec.spans[k] == exp[k], "span = maximal inside run, ends rounded to the nearest quarter pixel");
            assert!(rec.spans[k].1 <= rec.spans[k].2, "x1 <= x2");
        }
        k += 1;
    }
    kani::cover!(en + 1 == n || n == 0);
    kani::cover!(n == 0 || (xs[0] < 0 && en + 1 == n));
}

// ------------------------------------------------------------------ edge set-up (C01 #3, C07 #1)
fn qpt(x: i32, y: i32) -> Point { Point::new(x as f32 / 4.0, y as f32 / 4.0) }
pub const RH: i32 = 4; // surface 4x4 px: 16 sample rows
fn all_buckets_empty_except(r: &Rasterizer, keep: i32) -> bool {
    let mut ok = true;
    let mut i = 0;
    while i < (RH * 4) as usize { if i as i32 != keep && r.edge_starts[i].is_some() { ok = false; } i += 1; }
    ok
}

// @ob id=K.add_edge_line props=C01,C07,C10 kind=bounded:y_top>=-16 tier=quick timeout=1800 fns=Rasterizer::add_edge
// @+ desc="add_edge for a line with quarter-grid end points (x in ±64 px, y in -4..+20 px, surface 4x4): top/bottom ordering, winding = +1 if drawn downwards else -1, (x2,y2) = bottom end; horizontal, wholly-above and wholly-below edges leave no trace (no bucket, bounds unchanged); otherwise the edge is linked into bucket max(y_top,0) only, fullx = (x_top<<14) + max(0,-y_top)*slope, slope = trunc((dx<<14)/dy) stated by multiplication (|slope*dy| <= |dx<<14| < |slope*dy| + dy, same sign), shift = 0, and the bounds grow to cover the edge: top<=y_top>>2, bottom>=(y_bot+3)>>2, left<=min x>>2, right>=(max x+3)>>2; an edge clipped away after stepping above the surface is dropped"
#[kani::proof]
#[kani::unwind(18)]
fn k_add_edge_line() { add_edge_line_contract(256); }
// @ob id=K.add_edge_line_wide props=C01,C07 kind=bounded:y_top>=-16 tier=thorough timeout=3000 fns=Rasterizer::add_edge
// @+ desc="add_edge for a line, same contract as K.add_edge_line over the full working range in x: quarter-grid end points with x in ±4000 px (far left / right of the 4x4 surface), y in -4..+20 px"
#[kani::proof]
#[kani::unwind(18)]
fn k_add_edge_line_wide() { add_edge_line_contract(16000); }
fn add_edge_line_contract(xr: i32) {
    let mut r = Rasterizer::new(RH, RH);
    let sx: i32 = kani::any(); let sy: i32 = kani::any(); let ex: i32 = kani::any(); let ey: i32 = kani::any();
    kani::assume(sx >= -xr && sx <= xr && ex >= -xr && ex <= xr && sy >= -16 && sy <= 80 && ey >= -16 && ey <= 80);
    r.add_edge(qpt(sx, sy), qpt(ex, ey), false, Point::new(0., 0.));
    let down = !(ey < sy);
    let (xt, yt, xb, yb) = if down { (sx, sy, ex, ey) } else { (ex, ey, sx, sy) };
    let dropped0 = yb < 0 || yt >= RH * 4 || yt >= yb;
    if dropped0 {
        assert!(all_buckets_empty_except(&r, -1), "culled edge leaves no bucket entry");
        assert!(r.bounds_top == RH && r.bounds_bottom == 0 && r.bounds_left == RH && r.bounds_right == 0, "culled edge leaves the bounds alone");
    } else {
        let dy = yb - yt;
        let dx14 = (xb - xt) << 14;
        assert!(r.bounds_top <= yt >> 2 && r.bounds_bottom >= (yb + 3) >> 2, "bounds cover the edge vertically");
        assert!(r.bounds_left <= xt >> 2 && r.bounds_left <= xb >> 2 && r.bounds_right >= (xt + 3) >> 2 && r.bounds_right >= (xb + 3) >> 2, "bounds cover the edge horizontally");
        assert!(r.bounds_top == RH.min(yt >> 2) && r.bounds_bottom == 0.max((yb + 3) >> 2), "bounds are tight (exactly the first edge's rows)");
        assert!(4 * r.bounds_top.max(0) <= (4 * r.bounds_bottom).min(r.height), "RI: the row range rasterize()/reset() use is well-formed");
        let cury = yt.max(0);
        if cury >= yb {
            assert!(all_buckets_empty_except(&r, -1), "edge that ends before the first sample row is dropped");
        } else {
            assert!(all_buckets_empty_except(&r, cury), "only the bucket of the first visible sample row is touched");
            assert!(4 * r.bounds_top.max(0) <= cury && cury < (4 * r.bounds_bottom).min(r.height), "RI: the bucket lies inside the rows that rasterize() visits and reset() clears");
            let e = unsafe { r.edge_starts[cury as usize].unwrap().as_ref() };
            assert!(e.next.is_none(), "bucket was empty before");
            assert!(e.x2 == xb && e.y2 == yb, "bottom end point");
            assert!(e.winding == if down { 1 } else { -1 }, "winding by original direction");
            assert!(e.shift == 0, "line edge");
            let s = e.slope_x as i64;
            let p = s * dy as i64;
            let d = dx14 as i64;
            assert!((d >= 0 && p >= 0 && p <= d && d - p < dy as i64) || (d < 0 && p <= 0 && p >= d && p - d < dy as i64), "slope = trunc((dx<<14)/dy)");
            let k = if yt < 0 { -yt } else { 0 };
            assert!(e.fullx == (xt << 14) + k * e.slope_x, "x at the first visible row = x_top + steps*slope");
        }
    }
    kani::cover!(!dropped0 && yt < 0 && yb > 0);
    kani::cover!(!dropped0 && !down && xb < xt);
    kani::cover!(dropped0 && yt == yb);
}

// ------------------------------------------------------------------ list algorithms (C01 #6) -- raw-pointer code, bounded
/// walks the list and collects each record's identity tag (the `x2` field, which no list algorithm touches):
/// cheaper for CBMC than pointer-to-integer casts
fn list_to_array(mut p: Option<NonNull<ActiveEdge>>, out: &mut [usize; 5]) -> usize {
    let mut n = 0;
    let mut guard = 0;
    while let Some(e) = p {
        if guard >= 4 { return 99; }
        out[n] = unsafe { e.as_ref() }.x2 as usize;
        n += 1;
        p = unsafe { e.as_ref() }.next;
        guard += 1;
    }
    n
}
fn tag(edges: &mut [ActiveEdge], base: i32) { let mut i = 0; while i < edges.len() { edges[i].x2 = base + i as i32; i += 1; } }
fn is_sorted(mut p: Option<NonNull<ActiveEdge>>) -> bool {
    let mut ok = true;
    let mut guard = 0;
    while let Some(e) = p {
        if guard >= 4 { return false; }
        let e = unsafe { e.as_ref() };
        if let Some(n) = e.next { if e.fullx > unsafe { n.as_ref() }.fullx { ok = false; } }
        p = e.next;
        guard += 1;
    }
    ok
}
fn count_of(arr: &[usize; 5], n: usize, x: usize) -> usize {
    let mut c = 0; let mut i = 0;
    while i < 4 { if i < n && arr[i] == x { c += 1; } i += 1; }
    c
}

// @ob id=K.sort_edges props=C01 kind=bounded:edges=3 tier=quick timeout=1800 fns=Rasterizer::sort_edges
// @+ desc="sort_edges on an active list of 3 edges with symbolic x: the result is a permutation of the same edge records sorted by fullx (no edge lost, duplicated or modified)"
#[kani::proof]
#[kani::unwind(5)]
#[kani::solver(minisat)]
fn k_sort_edges() {
    let mut r = Rasterizer::new(1, 1);
    let xs: [i32; 3] = kani::any();
    let mut edges = [mk_edge(xs[0], 1), mk_edge(xs[1], -1), mk_edge(xs[2], 1)];
    tag(&mut edges, 100);
    let addr = [100usize, 101, 102];
    r.active_edges = link(&mut edges, 3);
    r.sort_edges();
    let mut out = [0usize; 5];
    let n = list_to_array(r.active_edges, &mut out);
    assert!(n == 3, "same number of edges");
    assert!(count_of(&out, n, addr[0]) == 1 && count_of(&out, n, addr[1]) == 1 && count_of(&out, n, addr[2]) == 1, "permutation of the same records");
    assert!(is_sorted(r.active_edges), "sorted by x");
    assert!(edges[0].fullx == xs[0] && edges[1].fullx == xs[1] && edges[2].fullx == xs[2], "edge records not modified");
    kani::cover!(xs[0] > xs[1] && xs[1] > xs[2]);
}

// @ob id=K.step_edges props=C01,C08 kind=bounded:edges=3 tier=quick timeout=900 fns=Rasterizer::step_edges,ActiveEdge::step
// @+ desc="step_edges on 3 line edges: every edge advances once (fullx += slope_x); exactly the edges with cur_y+1 >= y2 are unlinked, the others keep their relative order"
#[kani::proof]
#[kani::unwind(8)]
fn k_step_edges() {
    let mut r = Rasterizer::new(1, 1);
    let xs: [i32; 3] = kani::any();
    let sl: [i32; 3] = kani::any();
    let y2: [i32; 3] = kani::any();
    kani::assume(xs[0] > -(1 << 28) && xs[0] < (1 << 28) && xs[1] > -(1 << 28) && xs[1] < (1 << 28) && xs[2] > -(1 << 28) && xs[2] < (1 << 28));
    kani::assume(sl[0] > -(1 << 28) && sl[0] < (1 << 28) && sl[1] > -(1 << 28) && sl[1] < (1 << 28) && sl[2] > -(1 << 28) && sl[2] < (1 << 28));
    let mut edges = [mk_edge(xs[0], 1), mk_edge(xs[1], -1), mk_edge(xs[2], 1)];
    let mut i = 0;
    while i < 3 { edges[i].slope_x = sl[i]; edges[i].y2 = y2[i]; i += 1; }
    tag(&mut edges, 100);
    let addr = [100usize, 101, 102];
    r.active_edges = link(&mut edges, 3);
    r.cur_y = kani::any();
    kani::assume(r.cur_y >= 0 && r.cur_y < 100000);
    let cy = r.cur_y;
    r.step_edges();
    let mut out = [0usize; 5];
    let n = list_to_array(r.active_edges, &mut out);
    let mut exp = [0usize; 5];
    let mut en = 0;
    i = 0;
    while i < 3 { if !(cy + 1 >= y2[i]) { exp[en] = addr[i]; en += 1; } i += 1; }
    assert!(n == en, "exactly the finished edges are removed");
    i = 0;
    while i < 3 { if i < en { assert!(out[i] == exp[i], "survivors keep their order"); } i += 1; }
    assert!(edges[0].fullx == xs[0] + sl[0] && edges[1].fullx == xs[1] + sl[1] && edges[2].fullx == xs[2] + sl[2], "every edge stepped exactly once");
    kani::cover!(en == 1);
    kani::cover!(en == 3);
}

fn insert_contract(na: usize, nn: usize) {
    let mut r = Rasterizer::new(1, 1);
    let xs: [i32; 4] = kani::any();
    kani::assume(xs[0] <= xs[1]);
    let mut act = [mk_edge(xs[0], 1), mk_edge(xs[1], -1)];
    let mut new = [mk_edge(xs[2], 1), mk_edge(xs[3], -1)];
    tag(&mut act, 100);
    tag(&mut new, 102);
    let addr = [100usize, 101, 102, 103];
    r.active_edges = link(&mut act, na);
    r.cur_y = 2;
    r.edge_starts[2] = link(&mut new, nn);
    r.insert_starting_edges();
    let mut out = [0usize; 5];
    let n = list_to_array(r.active_edges, &mut out);
    assert!(n == na + nn, "all edges present");
    let mut k = 0;
    while k < 4 {
        let expect = if (k < 2 && k < na) || (k >= 2 && k - 2 < nn) { 1 } else { 0 };
        assert!(count_of(&out, n, addr[k]) == expect, "permutation of active ∪ bucket");
        k += 1;
    }
    assert!(is_sorted(r.active_edges), "sorted by x");
    kani::cover!(n == na + nn);
}
// @ob id=K.insert_starting_edges_12 props=C01 kind=bounded:active=1,new=2 tier=quick timeout=900 fns=Rasterizer::insert_starting_edges
// @+ desc="insert_starting_edges with 1 active edge and 2 new edges in the current row's bucket (any order, symbolic x): the active list becomes the sorted permutation of all records"
#[kani::proof]
#[kani::unwind(8)]
fn k_insert_starting_edges_12() { insert_contract(1, 2); }
// @ob id=K.insert_starting_edges_21 props=C01 kind=bounded:active=2,new=1 tier=quick timeout=900 fns=Rasterizer::insert_starting_edges
// @+ desc="insert_starting_edges with 2 sorted active edges and 1 new edge: sorted permutation of all records"
#[kani::proof]
#[kani::unwind(8)]
fn k_insert_starting_edges_21() { insert_contract(2, 1); }
// @ob id=K.insert_starting_edges_02 props=C01 kind=bounded:active=0,new=2 tier=quick timeout=900 fns=Rasterizer::insert_starting_edges
// @+ desc="insert_starting_edges with no active edge and 2 new edges: sorted permutation of the bucket"
#[kani::proof]
#[kani::unwind(8)]
fn k_insert_starting_edges_02() { insert_contract(0, 2); }

// ------------------------------------------------------------------ idle / reset (C10 #1, #2)
fn idle(r: &Rasterizer) -> bool {
    let mut ok = r.active_edges.is_none();
    let mut i = 0;
    while i < r.edge_starts.len() { if r.edge_starts[i].is_some() { ok = false; } i += 1; }
    ok && r.bounds_bottom == 0 && r.bounds_right == 0 && r.bounds_top == dot2_to_int(r.height) && r.bounds_left == dot2_to_int(r.width)
}

// @ob id=K.reset_idle props=C10,C07 kind=bounded:height=2px tier=quick timeout=900 fns=Rasterizer::reset
// @+ desc="reset(): from ANY state satisfying the rasteriser invariant RI (every non-empty bucket index i has 4*max(bounds_top,0) <= i < min(4*bounds_bottom,height); bounds_bottom < bounds_top implies no bucket and no active edge) the rasteriser is idle afterwards: all buckets empty, no active edges, bounds at their initial values; both branches, debug assertions included"
#[kani::proof]
#[kani::unwind(10)]
fn k_reset_idle() {
    let mut r = Rasterizer::new(3, 2); // 8 buckets
    let mut e = mk_edge(0, 1);
    let p = Some(NonNull::from(&mut e));
    r.bounds_top = kani::any(); r.bounds_bottom = kani::any(); r.bounds_left = kani::any(); r.bounds_right = kani::any();
    kani::assume(r.bounds_top >= -1000 && r.bounds_top <= 1000 && r.bounds_bottom >= -1000 && r.bounds_bottom <= 1000);
    let occ: [bool; 8] = kani::any();
    let lo = 4 * r.bounds_top.max(0);
    let hi = (4 * r.bounds_bottom).min(r.height);
    let mut i = 0;
    while i < 8 {
        if occ[i] { kani::assume(lo <= i as i32 && (i as i32) < hi); r.edge_starts[i] = p; }
        i += 1;
    }
    if kani::any() { r.active_edges = p; }
    if r.bounds_bottom >= r.bounds_top {
        // RI (established by add_edge, K.add_edge_line): the row range is well-formed
        kani::assume(lo <= hi);
    }
    if r.bounds_bottom < r.bounds_top {
        // "no edge accepted since the last reset": bounds are the initial ones, nothing is linked
        kani::assume(r.active_edges.is_none() && r.bounds_bottom == 0 && r.bounds_right == 0 && r.bounds_top == 2 && r.bounds_left == 3);
    }
    r.reset();
    assert!(idle(&r), "rasteriser idle after reset");
    kani::cover!(occ[7] && occ[0]);
    kani::cover!(r.bounds_bottom < r.bounds_top);
}

// ------------------------------------------------------------------ rasterize driver (C01 #9)
pub static mut SEQ: [(u8, i32); 40] = [(0, 0); 40];
pub static mut SEQ_N: usize = 0;
fn seq_push(k: u8, y: i32) { unsafe { if SEQ_N < 40 { SEQ[SEQ_N] = (k, y); } SEQ_N += 1; } }
fn ins_rec(r: &mut Rasterizer) { seq_push(1, r.cur_y); }
fn scan_rec(r: &mut Rasterizer, _b: &mut dyn RasterBlitter, w: Winding) { seq_push(if w == Winding::EvenOdd { 2 } else { 12 }, r.cur_y); }
fn step_rec(r: &mut Rasterizer) { seq_push(3, r.cur_y); }
fn sort_rec(r: &mut Rasterizer) { seq_push(4, r.cur_y); }

// @ob id=K.rasterize_order props=C01,C10 kind=bounded:height=2px tier=quick timeout=600 fns=Rasterizer::rasterize,Rasterizer::get_bounds
// @+ desc="rasterize visits exactly the sample rows 4*max(bounds_top,0) .. min(4*bounds_bottom,height) rounded up to whole pixel rows, each once, in increasing order, doing insert -> scan -> step -> sort on every sample row with the caller's winding rule (the four callees replaced by recorders); get_bounds() = bounds ∩ surface; bounds symbolic"
#[kani::proof]
#[kani::unwind(34)]
#[kani::stub(Rasterizer::insert_starting_edges, ins_rec)]
#[kani::stub(Rasterizer::scan_edges, scan_rec)]
#[kani::stub(Rasterizer::step_edges, step_rec)]
#[kani::stub(Rasterizer::sort_edges, sort_rec)]
fn k_rasterize_order() {
    let mut r = Rasterizer::new(3, 2);
    r.bounds_top = kani::any(); r.bounds_bottom = kani::any(); r.bounds_left = kani::any(); r.bounds_right = kani::any();
    kani::assume(r.bounds_top >= -1000 && r.bounds_top <= 1000 && r.bounds_bottom >= -1000 && r.bounds_bottom <= 1000);
    kani::assume(r.bounds_left >= -1000 && r.bounds_left <= 1000 && r.bounds_right >= -1000 && r.bounds_right <= 1000);
    let b = r.get_bounds();
    assert!(b.min.x == r.bounds_left.max(0) && b.min.y == r.bounds_top.max(0) && b.max.x == r.bounds_right.min(3) && b.max.y == r.bounds_bottom.min(2), "get_bounds = bounds ∩ surface");
    let eo: bool = kani::any();
    let mut rec = RecRaster { n: 0, spans: [(0, 0, 0); SPAN_CAP] };
    unsafe { SEQ_N = 0; }
    r.rasterize(&mut rec, if eo { Winding::EvenOdd } else { Winding::NonZero });
    let start = (4 * r.bounds_top).max(0);
    let end = (4 * r.bounds_bottom).min(8);
    let rows = if end > start { ((end - start + 3) / 4) * 4 } else { 0 };
    let n = unsafe { SEQ_N };
    assert!(n == (rows * 4) as usize, "four sample rows per pixel row, four phases per sample row");
    let mut i = 0;
    while i < 32 {
        if i < n {
            let (k, y) = unsafe { SEQ[i] };
            let phase = (i % 4) as u8;
            assert!(y == start + (i / 4) as i32, "rows in increasing order, each once");
            assert!(k == [1, if eo { 2 } else { 12 }, 3, 4][phase as usize], "insert, scan, step, sort");
        }
        i += 1;
    }
    kani::cover!(rows == 8);
    kani::cover!(rows == 4 && start == 4);
    kani::cover!(rows == 0);
}

// ------------------------------------------------------------------ curve subdivision count (C08 #3)
// @ob id=K.curve_steps props=C08,C07 kind=complete tier=quick timeout=600 fns=compute_curve_steps,diff_to_shift,cheap_distance
// @+ desc="compute_curve_steps for quarter-grid control points in ±4000 px: no overflow, result in [0,16] so that after clamping 1 <= shift <= 6; the subdivision count depends on the curve only through the deviation of the control point from the chord midpoint and is isotropic: swapping the roles of x and y gives the same count, mirroring either axis gives the same count, and a larger deviation never gives fewer subdivisions"
#[kani::proof]
fn k_curve_steps() {
    let c: [i32; 6] = kani::any();
    let mut i = 0;
    while i < 6 { kani::assume(c[i] >= -16000 && c[i] <= 16000); i += 1; }
    let e = Edge { x1: c[0], y1: c[1], control_x: c[2], control_y: c[3], x2: c[4], y2: c[5] };
    let s = compute_curve_steps(&e);
    assert!(s >= 0 && s <= 16, "shift in range");
    let swapped = Edge { x1: c[1], y1: c[0], control_x: c[3], control_y: c[2], x2: c[5], y2: c[4] };
    assert!(compute_curve_steps(&swapped) == s, "isotropic: x and y play the same role");
    let mirrored = Edge { x1: -c[0], y1: c[1], control_x: -c[2], control_y: c[3], x2: -c[4], y2: c[5] };
    assert!(compute_curve_steps(&mirrored) == s, "mirror symmetric");
    // a curve whose control point deviates more (same direction, doubled) needs at least as many subdivisions
    let dx = c[2] * 2 - c[0] - c[4];
    let dy = c[3] * 2 - c[1] - c[5];
    let bulged = Edge { x1: c[0], y1: c[1], control_x: c[2] + dx, control_y: c[3] + dy, x2: c[4], y2: c[5] };
    assert!(compute_curve_steps(&bulged) >= s, "more curvature never means fewer segments");
    kani::cover!(s == 3);
}

// ------------------------------------------------------------------ curve edge set-up (C07 #1, C08 #3)
// @ob id=K.add_edge_curve props=C07,C08 kind=bounded:y_top>=0,shift<=2 tier=thorough timeout=3000 fns=Rasterizer::add_edge
// @+ desc="add_edge for a y-monotonic quadratic with quarter-grid points (x in ±4000 px, y in 0..+4000 px, surface 4x4): no overflow in the <<13/<<14 conversions and forward differences, no division by zero in the slope computation, 1 <= shift <= 6, 0 <= count < 2^shift, the edge is linked into bucket y_top only (or dropped when horizontal / below the surface), when count reaches 0 the running point is exactly (x2,y2)<<14; bounded to gently curved quads (shift <= 2, at most 3 subdivision steps; the full 64-step harness exhausts CBMC's memory); edges starting above the surface additionally run step(), proved in lane V"
#[kani::proof]
#[kani::unwind(18)]
fn k_add_edge_curve() { add_edge_curve_contract(2); }
// @ob id=K.add_edge_curve_flat props=C08,C07 kind=bounded:y_top>=0,shift<=1 tier=thorough timeout=3000 fns=Rasterizer::add_edge
// @+ desc="add_edge for nearly flat y-monotonic quadratics (one subdivision): same contract as K.add_edge_curve -- no overflow, no division by zero, 1 <= shift <= 6, linked into bucket y_top only, and the rasteriser bounds cover both end points AND the control point on every side (a quadratic stays inside its control polygon, so the coverage mask is large enough)"
#[kani::proof]
#[kani::unwind(18)]
fn k_add_edge_curve_flat() { add_edge_curve_contract(1); }
fn add_edge_curve_contract(max_shift: i32) {
    let mut r = Rasterizer::new(RH, RH);
    let c: [i32; 6] = kani::any();
    kani::assume(c[0] >= -16000 && c[0] <= 16000 && c[2] >= -16000 && c[2] <= 16000 && c[4] >= -16000 && c[4] <= 16000);
    kani::assume(c[1] >= 0 && c[1] <= 16000 && c[3] >= 0 && c[3] <= 16000 && c[5] >= 0 && c[5] <= 16000);
    // what add_quad guarantees: control y between the end points' y
    kani::assume((c[1] <= c[3] && c[3] <= c[5]) || (c[1] >= c[3] && c[3] >= c[5]));
    // bounded stand-in: gently curved quads only (at most 2^max_shift - 1 subdivision steps)
    {
        let probe = Edge { x1: c[0], y1: c[1], control_x: c[2], control_y: c[3], x2: c[4], y2: c[5] };
        kani::assume(compute_curve_steps(&probe) <= max_shift);
    }
    r.add_edge(qpt(c[0], c[1]), qpt(c[4], c[5]), true, qpt(c[2], c[3]));
    let (yt, yb) = if c[5] < c[1] { (c[5], c[1]) } else { (c[1], c[5]) };
    if yb < 0 || yt >= RH * 4 || yt >= yb {
        assert!(all_buckets_empty_except(&r, -1), "culled edge leaves no bucket entry");
    } else {
        assert!(all_buckets_empty_except(&r, yt), "only the bucket of the top sample row is touched");
        let e = unsafe { r.edge_starts[yt as usize].unwrap().as_ref() };
        assert!(e.shift >= 1 && e.shift <= 6, "1 <= shift <= 6");
        assert!(e.count >= 0 && e.count < (1 << e.shift), "0 <= count < 2^shift");
        assert!(e.y2 == yb, "bottom end");
        assert!(r.bounds_left <= c[0] >> 2 && r.bounds_left <= c[2] >> 2 && r.bounds_left <= c[4] >> 2, "bounds cover the end points and the control point on the left");
        assert!(r.bounds_right >= (c[0] + 3) >> 2 && r.bounds_right >= (c[2] + 3) >> 2 && r.bounds_right >= (c[4] + 3) >> 2, "bounds cover the end points and the control point on the right (a curve stays inside its control polygon)");
        assert!(r.bounds_top <= yt >> 2 && r.bounds_bottom >= (yb + 3) >> 2, "bounds cover the curve vertically");
        if e.count == 0 { assert!(e.next_y == yb << 14 && e.next_x == e.x2 << 14, "last segment ends exactly on the end point"); }
    }
    kani::cover!(yt < yb && yt < RH * 4);
}
