// Lane K harness module injected as a child of `crate::geom` (sees private items).
#![allow(unused_imports, dead_code)]
use super::*;

// @ob id=K.valid_unit_divide props=C07,C08 kind=complete tier=quick timeout=600 fns=valid_unit_divide
// @+ desc="valid_unit_divide for every pair of finite f32 (±0 and subnormals included): never panics (its debug_assert holds) and returns true only with 0 < *ratio < 1, so interp()/chop_quad_at()'s debug assertions on t cannot fire; when it returns false *ratio is untouched"
#[kani::proof]
fn k_valid_unit_divide() {
    let n: f32 = kani::any();
    let d: f32 = kani::any();
    // operands are differences of in-range finite coordinates (Kani additionally flags NaN-producing float divisions,
    // which Rust does not treat as an error; non-finite operands are therefore left out)
    kani::assume(n.is_finite() && d.is_finite());
    let mut r: f32 = 7.0;
    let ok = valid_unit_divide(n, d, &mut r);
    if ok { assert!(r > 0. && r < 1., "true => 0 < ratio < 1"); } else { assert!(r == 7.0, "false => ratio untouched"); }
    kani::cover!(ok);
    kani::cover!(!ok && n != 0. && d != 0. && !n.is_nan() && !d.is_nan());
}

// @ob id=K.is_not_monotonic props=C08 kind=complete tier=quick timeout=600 fns=is_not_monotonic
// @+ desc="is_not_monotonic(a,b,c) for all finite floats: false exactly when b lies strictly beyond a on the way to c (a<b<=c or a>b>=c); true when a == b or b is outside the interval"
#[kani::proof]
fn k_is_not_monotonic() {
    let a: f32 = kani::any();
    let b: f32 = kani::any();
    let c: f32 = kani::any();
    kani::assume(a.is_finite() && b.is_finite() && c.is_finite() && a.abs() < 1e6 && b.abs() < 1e6 && c.abs() < 1e6);
    let r = is_not_monotonic(a, b, c);
    let mono = (a < b && b <= c) || (a > b && b >= c);
    assert!(r == !mono, "monotonic test");
    kani::cover!(r);
    kani::cover!(!r);
}

// @ob id=K.chop_quad_at props=C07,C08 kind=complete tier=quick timeout=900 fns=chop_quad_at,flatten_double_quad_extrema
// @+ desc="chop_quad_at for finite control points in ±4000 and 0<t<1, followed by flatten_double_quad_extrema: no debug assertion fires; the two halves share the split point dst[2]; the original end points are preserved bit for bit (dst[0]==src[0], dst[4]==src[2]); after flattening dst[1].y == dst[2].y == dst[3].y (each half is monotonic in y by construction)"
#[kani::proof]
#[kani::unwind(8)]
fn k_chop_quad_at() {
    let v: [f32; 6] = kani::any();
    let mut i = 0;
    while i < 6 { kani::assume(v[i].is_finite() && v[i].abs() <= 4000.); i += 1; }
    let t: f32 = kani::any();
    kani::assume(t > 0. && t < 1.);
    let src = [Point::new(v[0], v[1]), Point::new(v[2], v[3]), Point::new(v[4], v[5])];
    let mut dst = [Point::new(0., 0.); 5];
    chop_quad_at(&src, &mut dst, t);
    assert!(dst[0].x.to_bits() == src[0].x.to_bits() && dst[0].y.to_bits() == src[0].y.to_bits(), "first end point preserved");
    assert!(dst[4].x.to_bits() == src[2].x.to_bits() && dst[4].y.to_bits() == src[2].y.to_bits(), "last end point preserved");
    let mut k = 0;
    while k < 5 { assert!(dst[k].x.is_finite() && dst[k].y.is_finite(), "interpolated points are finite"); k += 1; }
    flatten_double_quad_extrema(&mut dst);
    assert!(dst[1].y == dst[2].y && dst[3].y == dst[2].y, "control points level with the split point");
    assert!(dst[0].x.to_bits() == src[0].x.to_bits() && dst[4].y.to_bits() == src[2].y.to_bits(), "end points still preserved");
    kani::cover!(t == 0.5);
}

// @ob id=K.contract_is_not_monotonic props=C08 kind=complete tier=quick timeout=300 fns=is_not_monotonic
// @+ desc="Kani function contract attached to the real is_not_monotonic (finite operands): false exactly when b lies strictly beyond a on the way to c; proved by proof_for_contract"
#[kani::proof_for_contract(is_not_monotonic)]
fn k_contract_is_not_monotonic() {
    is_not_monotonic(kani::any(), kani::any(), kani::any());
    kani::cover!(true);
}
