// Lane K harness module injected as a child of `crate::path_builder` (sees private items).
#![allow(unused_imports, dead_code)]
use super::*;
#[path = "common_uf.rs"]
mod uf;
use uf::*;

fn bits(p: Point) -> (u32, u32) { (p.x.to_bits(), p.y.to_bits()) }
fn fin(v: f32) -> bool { v.is_finite() && v.abs() < 1e6 }

// @ob id=K.pb_rect props=C20,C14 kind=complete unwind_complete=yes tier=quick timeout=600 fns=PathBuilder::rect,PathBuilder::new,PathBuilder::finish
// @+ desc="PathBuilder::rect(x,y,w,h) for all finite x,y,w,h appends exactly MoveTo(x,y), LineTo(x+w,y), LineTo(x+w,y+h), LineTo(x,y+h), Close (float + as written: the corners are (x,y) and (x+w,y+h)); new() starts empty with NonZero winding; finish() returns the ops in call order"
#[kani::proof]
#[kani::unwind(8)]
fn k_pb_rect() {
    let (x, y, w, h): (f32, f32, f32, f32) = (kani::any(), kani::any(), kani::any(), kani::any());
    kani::assume(fin(x) && fin(y) && fin(w) && fin(h));
    let mut pb = PathBuilder::new();
    pb.rect(x, y, w, h);
    let p = pb.finish();
    assert!(p.winding == Winding::NonZero, "NonZero winding");
    assert!(p.ops.len() == 5, "five ops");
    assert!(matches!(p.ops[0], PathOp::MoveTo(q) if bits(q) == bits(Point::new(x, y))), "MoveTo(x,y)");
    assert!(matches!(p.ops[1], PathOp::LineTo(q) if bits(q) == bits(Point::new(x + w, y))), "LineTo(x+w,y)");
    assert!(matches!(p.ops[2], PathOp::LineTo(q) if bits(q) == bits(Point::new(x + w, y + h))), "LineTo(x+w,y+h)");
    assert!(matches!(p.ops[3], PathOp::LineTo(q) if bits(q) == bits(Point::new(x, y + h))), "LineTo(x,y+h)");
    assert!(matches!(p.ops[4], PathOp::Close), "Close");
    kani::cover!(w < 0.);
}

// @ob id=K.pb_ops props=C20 kind=complete unwind_complete=yes tier=quick timeout=600 fns=PathBuilder::move_to,PathBuilder::line_to,PathBuilder::quad_to,PathBuilder::cubic_to,PathBuilder::close,PathBuilder::finish,PathBuilder::from
// @+ desc="move_to/line_to/quad_to/cubic_to/close append exactly one op each with the given coordinates, in call order; finish() returns them; From<Path> continues an existing path keeping its ops and winding"
#[kani::proof]
#[kani::unwind(8)]
fn k_pb_ops() {
    let v: [f32; 12] = kani::any();
    let mut pb = PathBuilder::new();
    pb.move_to(v[0], v[1]);
    pb.line_to(v[2], v[3]);
    pb.quad_to(v[4], v[5], v[6], v[7]);
    let p = pb.finish();
    let mut pb = PathBuilder::from(Path { ops: p.ops, winding: Winding::EvenOdd });
    pb.cubic_to(v[4], v[5], v[6], v[7], v[8], v[9]);
    pb.close();
    let p = pb.finish();
    assert!(p.winding == Winding::EvenOdd && p.ops.len() == 5, "ops in call order, winding kept");
    assert!(matches!(p.ops[0], PathOp::MoveTo(q) if bits(q) == (v[0].to_bits(), v[1].to_bits())), "MoveTo");
    assert!(matches!(p.ops[1], PathOp::LineTo(q) if bits(q) == (v[2].to_bits(), v[3].to_bits())), "LineTo");
    assert!(matches!(p.ops[2], PathOp::QuadTo(c, q) if bits(c) == (v[4].to_bits(), v[5].to_bits()) && bits(q) == (v[6].to_bits(), v[7].to_bits())), "QuadTo(control, end)");
    assert!(matches!(p.ops[3], PathOp::CubicTo(c1, c2, q) if bits(c1) == (v[4].to_bits(), v[5].to_bits()) && bits(c2) == (v[6].to_bits(), v[7].to_bits()) && bits(q) == (v[8].to_bits(), v[9].to_bits())), "CubicTo(c1, c2, end)");
    assert!(matches!(p.ops[4], PathOp::Close), "Close");
    kani::cover!(true);
}

// @ob id=K.path_transform props=C20,C11 kind=bounded:4-ops tier=quick timeout=900 fns=Path::transform
// @+ desc="Path::transform on a path MoveTo, QuadTo, Close, LineTo, for EVERY f32 coordinate and EVERY affine transform (transform_point replaced by an uninterpreted function): same number of ops, same kinds in the same order, same winding rule, every point p replaced by transform.transform_point(p), each exactly once (CubicTo: K.pathop_transform)"
#[kani::proof]
#[kani::unwind(14)]
#[kani::stub(euclid::Transform2D::transform_point, transform_point_uf)]
fn k_path_transform() {
    let v: [f32; 8] = kani::any();
    let m: [f32; 6] = kani::any();
    let t = Transform::new(m[0], m[1], m[2], m[3], m[4], m[5]);
    let pts = [Point::new(v[0], v[1]), Point::new(v[2], v[3]), Point::new(v[4], v[5]), Point::new(v[6], v[7])];
    let eo: bool = kani::any();
    uf_tp_reset();
    let p = Path { ops: vec![PathOp::MoveTo(pts[0]), PathOp::QuadTo(pts[1], pts[2]), PathOp::Close, PathOp::LineTo(pts[3])], winding: if eo { Winding::EvenOdd } else { Winding::NonZero } };
    let q = p.transform(&t);
    let tp = |k: usize| bits(t.transform_point(pts[k]));
    assert!(q.ops.len() == 4 && q.winding == (if eo { Winding::EvenOdd } else { Winding::NonZero }), "op count and winding kept");
    assert!(matches!(q.ops[0], PathOp::MoveTo(a) if bits(a) == tp(0)), "MoveTo mapped");
    assert!(matches!(q.ops[1], PathOp::QuadTo(a, b) if bits(a) == tp(1) && bits(b) == tp(2)), "QuadTo mapped");
    assert!(matches!(q.ops[2], PathOp::Close), "Close kept");
    assert!(matches!(q.ops[3], PathOp::LineTo(a) if bits(a) == tp(3)), "LineTo mapped");
    kani::cover!(true);
}

// @ob id=K.pathop_transform props=C20,C11 kind=complete unwind_complete=yes tier=quick timeout=600 fns=PathOp::transform
// @+ desc="PathOp::transform for every op kind, EVERY f32 coordinate and EVERY affine transform (uninterpreted transform_point): the kind is kept and each point p is replaced by transform.transform_point(p)"
#[kani::proof]
#[kani::unwind(14)]
#[kani::stub(euclid::Transform2D::transform_point, transform_point_uf)]
fn k_pathop_transform() {
    let v: [f32; 6] = kani::any();
    let m: [f32; 6] = kani::any();
    let t = Transform::new(m[0], m[1], m[2], m[3], m[4], m[5]);
    let (a, b, c) = (Point::new(v[0], v[1]), Point::new(v[2], v[3]), Point::new(v[4], v[5]));
    uf_tp_reset();
    let (ta, tb, tc) = (bits(t.transform_point(a)), bits(t.transform_point(b)), bits(t.transform_point(c)));
    assert!(matches!(PathOp::MoveTo(a).transform(&t), PathOp::MoveTo(x) if bits(x) == ta), "MoveTo");
    assert!(matches!(PathOp::LineTo(a).transform(&t), PathOp::LineTo(x) if bits(x) == ta), "LineTo");
    assert!(matches!(PathOp::QuadTo(a, b).transform(&t), PathOp::QuadTo(x, y) if bits(x) == ta && bits(y) == tb), "QuadTo");
    assert!(matches!(PathOp::CubicTo(a, b, c).transform(&t), PathOp::CubicTo(x, y, z) if bits(x) == ta && bits(y) == tb && bits(z) == tc), "CubicTo");
    assert!(matches!(PathOp::Close.transform(&t), PathOp::Close), "Close");
    kani::cover!(true);
}

// @ob id=K.transform_point_identity props=C11,C20 kind=complete tier=quick timeout=600 fns=euclid::Transform2D::transform_point
// @+ desc="the law the uninterpreted transform_point carries: under the exact identity matrix transform_point returns its argument for all finite coordinates (as floats, i.e. up to the sign of zero) -- proved on the real euclid code"
#[kani::proof]
fn k_transform_point_identity() {
    let (x, y): (f32, f32) = (kani::any(), kani::any());
    kani::assume(x.is_finite() && y.is_finite());
    let r = Transform::identity().transform_point(Point::new(x, y));
    assert!(r.x == x && r.y == y, "identity transform leaves the point alone");
    kani::cover!(x == 1.5);
}

