// Lane K harness module injected as a child of `crate::draw_target` (sees private items).
#![allow(unused_imports, dead_code, static_mut_refs)]
use super::*;
use crate::blitter::*;
use sw_composite::*;
#[path = "common_uf.rs"]
mod uf;
use uf::*;

// ------------------------------------------------------------------ uninterpreted functions
// Memo tables give "arbitrary but fixed function" semantics: the first call with given arguments picks an
// arbitrary result, later calls with equal arguments return the same result.
//  * `FnBlend::blend` = arbitrary function of (src, dst): a sound over-approximation of all 28 deterministic
//    blend modes for frame / locality / weighting claims ("for any T: Blend").
//  * `lerp_uf` / `alpha_lerp_uf` replace sw-composite's kernels (kani::stub) in the row-proc harnesses; they are
//    arbitrary functions constrained only by the kernel contracts that are PROVED on the real kernels in
//    verif_blitter.rs (K.alpha_lerp_zero).  This is the modular step: callers see the callee's contract.
pub static mut UF_BLEND: Uf = Uf::new();
pub static mut UF_LERP: Uf = Uf::new();
pub static mut UF_ALERP: Uf = Uf::new();
pub fn uf_reset() { unsafe { UF_BLEND.n = 0; UF_LERP.n = 0; UF_ALERP.n = 0; } }
pub fn fn_blend(src: u32, dst: u32) -> u32 { unsafe { UF_BLEND.call([src, dst, 0, 0]) } }
pub struct FnBlend;
impl blend::Blend for FnBlend {
    fn blend(src: u32, dst: u32) -> u32 { fn_blend(src, dst) }
}
pub fn lerp_uf(a: u32, b: u32, t: u32) -> u32 { unsafe { UF_LERP.call([a, b, t, 0]) } }
pub fn alpha_lerp_uf(src: u32, dst: u32, mask: u32, clip: u32) -> u32 {
    // contract proved on the real kernel: K.alpha_lerp_zero
    if mask == 0 || clip == 0 { return src; }
    unsafe { UF_ALERP.call([src, dst, mask, clip]) }
}

/// A shader that writes arbitrary colours into dest[..count] and nothing else (the Shader contract).
pub struct AnyShader;
impl Shader for AnyShader {
    fn shade_span(&self, _x: i32, _y: i32, dest: &mut [u32], count: usize) {
        assert!(count <= dest.len(), "shade_span precondition: count <= dest.len()");
        let mut i = 0;
        while i < count {
            dest[i] = kani::any();
            i += 1;
        }
    }
}

// ------------------------------------------------------------------ row procs (C02 #3, C03 #3)
// @ob id=K.blend_row_mask props=C02,C03,C18 kind=bounded:len<=3 tier=quick timeout=300 fns=blend_row_mask assumes="lerp replaced by an arbitrary function (no kernel fact needed)"
// @+ desc="blend_row_mask::<T> for any T: touches exactly min(len) leading pixels; pixel i becomes lerp(d_i, T::blend(s_i,d_i), a256(mask_i)); a pixel whose mask byte is 0 is bit-identical afterwards"
#[kani::proof]
#[kani::unwind(8)]
#[kani::stub(sw_composite::lerp, lerp_uf)]
fn k_blend_row_mask() {
    let src: [u32; 3] = kani::any();
    let mask: [u8; 3] = kani::any();
    let old: [u32; 4] = kani::any();
    let mut dst = old;
    let ns: usize = kani::any();
    let nm: usize = kani::any();
    let nd: usize = kani::any();
    kani::assume(ns <= 3 && nm <= 3 && nd <= 4);
    uf_reset();
    blend_row_mask::<FnBlend>(&src[..ns], &mask[..nm], &mut dst[..nd]);
    let n = ns.min(nm).min(nd);
    let mut i = 0;
    while i < 4 {
        if i < n {
            if mask[i] == 0 {
                assert!(dst[i] == old[i], "zero coverage keeps the pixel bit-for-bit");
            } else {
                assert!(dst[i] == lerp(old[i], fn_blend(src[i], old[i]), alpha_to_alpha256(mask[i] as u32)), "pixel = lerp(prev, blend(src,prev), a256(coverage))");
            }
        } else {
            assert!(dst[i] == old[i], "pixels beyond the span are untouched");
        }
        i += 1;
    }
    kani::cover!(n == 3);
    kani::cover!(n == 3 && mask[1] == 0 && mask[2] == 255);
}

// @ob id=K.blend_row_mask_clip props=C02,C03,C05,C18 kind=bounded:len<=3 tier=quick timeout=300 fns=blend_row_mask_clip assumes="alpha_lerp replaced by an arbitrary function satisfying K.alpha_lerp_zero (proved on the real kernel)"
// @+ desc="blend_row_mask_clip::<T> for any T: touches exactly min(len) leading pixels; pixel i becomes alpha_lerp(d_i, T::blend(s_i,d_i), mask_i, clip_i); zero mask or zero clip byte keeps the pixel bit-identical"
#[kani::proof]
#[kani::unwind(8)]
#[kani::stub(sw_composite::alpha_lerp, alpha_lerp_uf)]
fn k_blend_row_mask_clip() {
    let src: [u32; 3] = kani::any();
    let mask: [u8; 3] = kani::any();
    let clip: [u8; 4] = kani::any();
    let old: [u32; 4] = kani::any();
    let mut dst = old;
    let ns: usize = kani::any();
    let nm: usize = kani::any();
    let nc: usize = kani::any();
    let nd: usize = kani::any();
    kani::assume(ns <= 3 && nm <= 3 && nc <= 4 && nd <= 4);
    uf_reset();
    blend_row_mask_clip::<FnBlend>(&src[..ns], &mask[..nm], &clip[..nc], &mut dst[..nd]);
    let n = ns.min(nm).min(nd).min(nc);
    let mut i = 0;
    while i < 4 {
        if i < n {
            if mask[i] == 0 || clip[i] == 0 {
                assert!(dst[i] == old[i], "zero coverage or zero clip coverage keeps the pixel bit-for-bit");
            } else {
                assert!(dst[i] == alpha_lerp(old[i], fn_blend(src[i], old[i]), mask[i] as u32, clip[i] as u32), "pixel = alpha_lerp(prev, blend(src,prev), coverage, clip)");
            }
        } else {
            assert!(dst[i] == old[i], "pixels beyond the span are untouched");
        }
        i += 1;
    }
    kani::cover!(n == 3);
    kani::cover!(n == 3 && mask[1] == 0 && clip[2] == 0);
}

// @ob id=K.blend_row props=C02,C03,C14,C15,C18 kind=bounded:len<=3 tier=quick timeout=300 fns=blend_row
// @+ desc="blend_row::<T> for any T: touches exactly min(src.len, dst.len) leading pixels; pixel i becomes T::blend(s_i, d_i)"
#[kani::proof]
#[kani::unwind(8)]
fn k_blend_row() {
    let src: [u32; 3] = kani::any();
    let old: [u32; 4] = kani::any();
    let mut dst = old;
    let ns: usize = kani::any();
    let nd: usize = kani::any();
    kani::assume(ns <= 3 && nd <= 4);
    uf_reset();
    blend_row::<FnBlend>(&src[..ns], &mut dst[..nd]);
    let n = ns.min(nd);
    let mut i = 0;
    while i < 4 {
        if i < n {
            assert!(dst[i] == fn_blend(src[i], old[i]), "pixel = blend(src, prev)");
        } else {
            assert!(dst[i] == old[i], "pixels beyond the span are untouched");
        }
        i += 1;
    }
    kani::cover!(n == 3);
}

// ------------------------------------------------------------------ span blitters with a row proc (C02 #2, C14 #4)
// The row proc is a plain fn pointer field, so the harness passes a RECORDER as `blend_fn`: it logs the slices it
// is handed and checks them against the row proc's contract ("touches min(len) leading pixels of dst").
pub struct NopShader;
pub static mut SHADE_LOG: (i32, i32, usize, usize, usize) = (0, 0, 0, 0, 0);
impl Shader for NopShader {
    fn shade_span(&self, x: i32, y: i32, dest: &mut [u32], count: usize) {
        assert!(count <= dest.len(), "shade_span precondition: count <= dest.len()");
        unsafe { SHADE_LOG = (x, y, dest.as_ptr() as usize, dest.len(), count); }
    }
}
pub static mut ROW_LOG: (usize, usize, usize, usize, usize, usize, usize, usize, usize) = (0, 0, 0, 0, 0, 0, 0, 0, 0);
pub static mut ROW_CALLS: usize = 0;
fn rec_row(src: &[u32], dst: &mut [u32]) {
    unsafe { ROW_LOG = (src.as_ptr() as usize, src.len(), 0, 0, 0, 0, dst.as_ptr() as usize, dst.len(), 0); ROW_CALLS += 1; }
}
fn rec_row_mask(src: &[u32], mask: &[u8], dst: &mut [u32]) {
    unsafe { ROW_LOG = (src.as_ptr() as usize, src.len(), mask.as_ptr() as usize, mask.len(), 0, 0, dst.as_ptr() as usize, dst.len(), 0); ROW_CALLS += 1; }
}
fn rec_row_mask_clip(src: &[u32], mask: &[u8], clip: &[u8], dst: &mut [u32]) {
    unsafe { ROW_LOG = (src.as_ptr() as usize, src.len(), mask.as_ptr() as usize, mask.len(), clip.as_ptr() as usize, clip.len(), dst.as_ptr() as usize, dst.len(), 0); ROW_CALLS += 1; }
}

pub struct SpanGeom { x: i32, y: i32, stride: i32, dest_len: usize, yy: i32, x1: i32, x2: i32, tmp_len: usize }
/// Precondition of every Blitter::blit_span (what `composite` establishes, see K.composite_*):
/// x1 <= x2, the span lies on row yy of a destination whose origin is (x, y) and whose rows are `stride` long,
/// the row is inside dest, the span is no longer than the scratch row `tmp`.
fn any_span_geom(max_dest: usize, max_tmp: usize) -> SpanGeom {
    let g = SpanGeom { x: kani::any(), y: kani::any(), stride: kani::any(), dest_len: kani::any(),
                       yy: kani::any(), x1: kani::any(), x2: kani::any(), tmp_len: kani::any() };
    kani::assume(g.x >= -1000 && g.x <= 1000 && g.y >= -1000 && g.y <= 1000);
    kani::assume(g.stride >= 0 && g.stride as usize <= max_dest && g.dest_len <= max_dest && g.tmp_len <= max_tmp);
    kani::assume(g.yy >= -2000 && g.yy <= 2000 && g.x1 >= -2000 && g.x1 <= 2000 && g.x2 >= -2000 && g.x2 <= 2000);
    kani::assume(g.yy >= g.y && g.yy - g.y <= max_dest as i32);
    kani::assume(g.x1 >= g.x && g.x1 <= g.x2 && g.x2 - g.x <= g.stride);
    kani::assume(((g.yy - g.y) * g.stride + (g.x2 - g.x)) as usize <= g.dest_len);
    kani::assume((g.x2 - g.x1) as usize <= g.tmp_len);
    g
}

// @ob id=K.blend_blitter_span props=C02,C03,C14 kind=bounded:dest<=12words,tmp<=4 tier=quick timeout=300 fns=ShaderBlendBlitter::blit_span
// @+ desc="mask-less blitter: shades count=x2-x1 pixels at (x1,y) and hands the row proc slices that make it touch exactly count pixels starting at dest[(y-self.y)*stride + x1-self.x] (row proc contract: min(src.len,dst.len) leading pixels); geometry symbolic, loop-free"
#[kani::proof]
fn k_blend_blitter_span() {
    let g = any_span_geom(12, 4);
    let mut dest = [0u32; 12];
    let tmp = vec![0u32; g.tmp_len];
    let tmp_ptr = tmp.as_ptr() as usize;
    let dest_ptr = dest.as_ptr() as usize;
    let shader = NopShader;
    unsafe { ROW_CALLS = 0; }
    let mut b = ShaderBlendBlitter { x: g.x, y: g.y, shader: &shader, tmp, dest: &mut dest[..g.dest_len], dest_stride: g.stride, blend_fn: rec_row };
    b.blit_span(g.yy, g.x1, g.x2, &[]);
    let count = (g.x2 - g.x1) as usize;
    let base = ((g.yy - g.y) * g.stride + g.x1 - g.x) as usize;
    let (sp, sl, _, _, _, _, dp, dl, _) = unsafe { ROW_LOG };
    assert!(unsafe { ROW_CALLS } == 1, "row proc called once");
    assert!(unsafe { SHADE_LOG } == (g.x1, g.yy, tmp_ptr, g.tmp_len, count), "shader asked for count pixels at (x1, y) into tmp");
    assert!(sp == tmp_ptr, "row proc source is the shaded row");
    assert!(dp == dest_ptr + 4 * base, "row proc destination starts at the span's first pixel");
    assert!(sl.min(dl) == count, "row proc touches exactly x2-x1 pixels");
    kani::cover!(count == 1 && g.tmp_len == 4 && g.dest_len == 12);
    kani::cover!(count == 0);
}

// @ob id=K.blend_mask_blitter_span props=C02,C03 kind=bounded:dest<=12words,tmp<=4 tier=quick timeout=300 fns=ShaderBlendMaskBlitter::blit_span
// @+ desc="masked non-SrcOver blitter: row proc gets (tmp, mask, dest[(y-self.y)*stride + x1-self.x ..]) and therefore touches exactly x2-x1 pixels (mask.len()==x2-x1 is composite's guarantee); geometry symbolic, loop-free"
#[kani::proof]
fn k_blend_mask_blitter_span() {
    let g = any_span_geom(12, 4);
    let mut dest = [0u32; 12];
    let tmp = vec![0u32; g.tmp_len];
    let tmp_ptr = tmp.as_ptr() as usize;
    let dest_ptr = dest.as_ptr() as usize;
    let mask = [0u8; 4];
    let count = (g.x2 - g.x1) as usize;
    let shader = NopShader;
    unsafe { ROW_CALLS = 0; }
    let mut b = ShaderBlendMaskBlitter { x: g.x, y: g.y, shader: &shader, tmp, dest: &mut dest[..g.dest_len], dest_stride: g.stride, blend_fn: rec_row_mask };
    b.blit_span(g.yy, g.x1, g.x2, &mask[..count]);
    let base = ((g.yy - g.y) * g.stride + g.x1 - g.x) as usize;
    let (sp, sl, mp, ml, _, _, dp, dl, _) = unsafe { ROW_LOG };
    assert!(unsafe { ROW_CALLS } == 1, "row proc called once");
    assert!(unsafe { SHADE_LOG } == (g.x1, g.yy, tmp_ptr, g.tmp_len, count), "shader asked for count pixels at (x1, y) into tmp");
    assert!(sp == tmp_ptr && mp == mask.as_ptr() as usize, "row proc source is the shaded row, coverage is the mask slice");
    assert!(dp == dest_ptr + 4 * base, "row proc destination starts at the span's first pixel");
    assert!(sl.min(ml).min(dl) == count, "row proc touches exactly x2-x1 pixels");
    kani::cover!(count == 2 && g.tmp_len == 4 && g.dest_len == 12 && base == 5);
}

// @ob id=K.clip_blend_mask_blitter_span props=C02,C03,C05 kind=bounded:dest<=12words,tmp<=4,clip<=16 tier=quick timeout=300 fns=ShaderClipBlendMaskBlitter::blit_span
// @+ desc="masked+clipped non-SrcOver blitter: as K.blend_mask_blitter_span, and the clip slice starts at clip[y*clip_stride + x1] (absolute device coordinates, independent of the destination origin)"
#[kani::proof]
fn k_clip_blend_mask_blitter_span() {
    let g = any_span_geom(12, 4);
    let mut dest = [0u32; 12];
    let tmp = vec![0u32; g.tmp_len];
    let tmp_ptr = tmp.as_ptr() as usize;
    let dest_ptr = dest.as_ptr() as usize;
    let mask = [0u8; 4];
    let clip = [0u8; 16];
    let clip_len: usize = kani::any();
    let clip_stride: i32 = kani::any();
    kani::assume(clip_len <= 16 && clip_stride >= 0 && clip_stride <= 16);
    // the clip mask covers the surface [0,clip_stride) x rows; the span lies on the surface
    kani::assume(g.yy >= 0 && g.yy <= 16 && g.x1 >= 0 && g.x2 <= clip_stride && (g.yy * clip_stride + g.x2) as usize <= clip_len);
    let count = (g.x2 - g.x1) as usize;
    let shader = NopShader;
    unsafe { ROW_CALLS = 0; }
    let mut b = ShaderClipBlendMaskBlitter { x: g.x, y: g.y, shader: &shader, tmp, dest: &mut dest[..g.dest_len], dest_stride: g.stride,
                                             clip: &clip[..clip_len], clip_stride, blend_fn: rec_row_mask_clip };
    b.blit_span(g.yy, g.x1, g.x2, &mask[..count]);
    let base = ((g.yy - g.y) * g.stride + g.x1 - g.x) as usize;
    let (sp, sl, mp, ml, cp, cl, dp, dl, _) = unsafe { ROW_LOG };
    assert!(unsafe { ROW_CALLS } == 1, "row proc called once");
    assert!(unsafe { SHADE_LOG } == (g.x1, g.yy, tmp_ptr, g.tmp_len, count), "shader asked for count pixels at (x1, y) into tmp");
    assert!(sp == tmp_ptr && mp == mask.as_ptr() as usize, "row proc source is the shaded row, coverage is the mask slice");
    assert!(cp == clip.as_ptr() as usize + (g.yy * clip_stride + g.x1) as usize, "clip slice starts at absolute device (x1, y)");
    assert!(dp == dest_ptr + 4 * base, "row proc destination starts at the span's first pixel");
    assert!(sl.min(ml).min(dl).min(cl) == count, "row proc touches exactly x2-x1 pixels");
    kani::cover!(count == 2 && g.x == 1 && g.y == 1 && base == 3);
}

// ------------------------------------------------------------------ composite as a call-log contract (C02 #5, C05 #5, C06 #2, C07 #4)
// `DrawTarget::choose_blitter` is replaced by a recorder that returns a logging blitter.  The logging blitter's
// blit_span ASSERTS the precondition of every real span blitter (proved sufficient in lane V / the span harnesses),
// so a precondition composite does not establish is a failed obligation here, not an assumption there.
pub const REC_CAP: usize = 4;
pub struct RecBlitter {
    pub n: usize,
    pub calls: [(i32, i32, i32, usize, usize); REC_CAP], // y, x1, x2, mask ptr, mask len
    pub has_mask: bool,
    pub clip_mask_len: Option<usize>,
    pub dest_ptr: usize,
    pub dest_len: usize,
    pub dest_bounds: IntRect,
    pub width: i32,
    pub blend: BlendMode,
    pub chosen: usize,
}
pub static mut REC: RecBlitter = RecBlitter { n: 0, calls: [(0, 0, 0, 0, 0); REC_CAP], has_mask: false, clip_mask_len: None, dest_ptr: 0, dest_len: 0,
    dest_bounds: IntRect { min: euclid::Point2D { x: 0, y: 0, _unit: std::marker::PhantomData }, max: euclid::Point2D { x: 0, y: 0, _unit: std::marker::PhantomData } },
    width: 0, blend: BlendMode::SrcOver, chosen: 0 };
impl Blitter for RecBlitter {
    fn blit_span(&mut self, y: i32, x1: i32, x2: i32, mask: &[u8]) {
        let db = self.dest_bounds;
        assert!(x1 <= x2, "blit_span precondition: x1 <= x2");
        assert!((x2 - x1) as usize <= self.width as usize, "blit_span precondition: span fits the scratch row tmp (len = surface width)");
        if self.has_mask {
            assert!(mask.len() == (x2 - x1) as usize, "blit_span precondition: mask slice has exactly x2-x1 bytes");
        }
        assert!(db.min.y <= y && y < db.max.y && db.min.x <= x1 && x2 <= db.max.x, "blit_span precondition: span inside the destination bounds");
        assert!(((y - db.min.y) as i64 * (db.max.x - db.min.x) as i64 + (x2 - db.min.x) as i64) as usize <= self.dest_len, "blit_span precondition: row inside the destination buffer");
        if let Some(cl) = self.clip_mask_len {
            assert!(y >= 0 && x1 >= 0 && x2 <= self.width && ((y * self.width + x2) as usize) <= cl, "blit_span precondition: span inside the clip mask (absolute device coordinates)");
        }
        if self.n < REC_CAP {
            self.calls[self.n] = (y, x1, x2, mask.as_ptr() as usize, mask.len());
        }
        self.n += 1;
    }
}
fn choose_blitter_rec<'a, 'b, 'c>(mask: Option<&[u8]>, clip_stack: &'a Vec<Clip>, _blitter_storage: &'b mut ShaderBlitterStorage<'a>, _shader: &'a dyn Shader, blend: BlendMode, dest: &'a mut [u32], dest_bounds: IntRect, width: i32) -> &'b mut dyn Blitter {
    unsafe {
        REC.n = 0;
        REC.has_mask = mask.is_some();
        REC.clip_mask_len = match clip_stack.last() { Some(Clip { rect: _, mask: Some(m) }) => Some(m.len()), _ => None };
        REC.dest_ptr = dest.as_ptr() as usize;
        REC.dest_len = dest.len();
        REC.dest_bounds = dest_bounds;
        REC.width = width;
        REC.blend = blend;
        REC.chosen += 1;
        &mut REC
    }
}

pub const CW: i32 = 3;
pub const CH: i32 = 2;
fn any_rect(lo: i32, hi: i32) -> IntRect {
    let r = intrect::<i32>(kani::any(), kani::any(), kani::any(), kani::any());
    kani::assume(r.min.x >= lo && r.min.x <= hi && r.min.y >= lo && r.min.y <= hi && r.max.x >= lo && r.max.x <= hi && r.max.y >= lo && r.max.y <= hi);
    r
}
fn any_rect_in_surface() -> IntRect {
    let r = any_rect(-4000, 4000);
    kani::assume(wf_rect(r));
    r
}
/// WF for clip and layer rects: empty/inverted (then nothing can be drawn through it), or inside the surface box
fn wf_rect(r: IntRect) -> bool {
    let empty = !(r.max.x > r.min.x && r.max.y > r.min.y);
    empty || (r.min.x >= 0 && r.max.x <= CW && r.min.y >= 0 && r.max.y <= CH)
}
fn wf_target(with_clip: u8, with_layer: bool) -> DrawTarget {
    let mut dt = DrawTarget::new(CW, CH);
    if with_clip == 1 {
        dt.clip_stack.push(Clip { rect: any_rect_in_surface(), mask: None });
    } else if with_clip == 2 {
        dt.clip_stack.push(Clip { rect: any_rect_in_surface(), mask: Some(vec![0u8; (CW * CH) as usize + 1]) });
    }
    if with_layer {
        let rect = any_rect_in_surface();
        let w = (rect.max.x - rect.min.x).max(0);
        let h = (rect.max.y - rect.min.y).max(0);
        dt.layer_stack.push(Layer { buf: vec![0u32; (w * h) as usize], opacity: 1., rect, blend: BlendMode::SrcOver });
    }
    dt
}
fn isect(a: IntRect, b: IntRect) -> IntRect {
    intrect(a.min.x.max(b.min.x), a.min.y.max(b.min.y), a.max.x.min(b.max.x), a.max.y.min(b.max.y))
}

fn composite_contract(with_clip: u8, with_layer: bool, with_mask: bool) {
    let mut dt = wf_target(with_clip, with_layer);
    let rect = any_rect(-1000, 1000);
    // mask rect: any position, size up to the surface (fill: bounds rect; mask(): user mask; pop_layer: whole surface)
    let mx: i32 = kani::any();
    let my: i32 = kani::any();
    let mw: i32 = kani::any();
    let mh: i32 = kani::any();
    kani::assume(mx >= -1000 && mx <= 1000 && my >= -1000 && my <= 1000 && mw >= 0 && mw <= CW && mh >= 0 && mh <= CH);
    let mask_rect = intrect(mx, my, mx + mw, my + mh);
    let maskbuf = vec![0u8; (mw * mh) as usize];
    let mask_ptr = maskbuf.as_ptr() as usize;
    let src = Source::Solid(SolidSource { r: 1, g: 2, b: 3, a: 255 });
    let clip_bounds = dt.clip_bounds();
    let (exp_dest_ptr, exp_dest_len, dest_bounds) = match dt.layer_stack.last() {
        Some(l) => (l.buf.as_ptr() as usize, l.buf.len(), l.rect),
        None => (dt.buf.as_ptr() as usize, dt.buf.len(), intrect(0, 0, CW, CH)),
    };
    unsafe { REC.chosen = 0; REC.n = 0; }
    let blend: BlendMode = if kani::any() { BlendMode::SrcOver } else { BlendMode::Xor };
    dt.composite(&src, if with_mask { Some(&maskbuf[..]) } else { None }, mask_rect, rect, blend, 1.);
    let r = isect(isect(isect(rect, clip_bounds), dest_bounds), mask_rect);
    let rec = unsafe { &REC };
    if r.min.x >= r.max.x || r.min.y >= r.max.y {
        assert!(rec.n == 0, "empty or inverted region: no span is blitted");
    } else {
        assert!(rec.chosen == 1, "one blitter is built");
        assert!(rec.dest_ptr == exp_dest_ptr && rec.dest_len == exp_dest_len && rec.dest_bounds == dest_bounds, "destination = innermost open layer (buffer, origin, size), else the surface");
        assert!(rec.width == CW && rec.blend == blend && rec.has_mask == with_mask, "blitter parameters");
        assert!(rec.n == (r.max.y - r.min.y) as usize, "one span per row of rect ∩ clip bounds ∩ destination bounds ∩ mask rect");
        let mut k = 0;
        while k < REC_CAP {
            if k < rec.n {
                let (y, x1, x2, mp, ml) = rec.calls[k];
                assert!(y == r.min.y + k as i32 && x1 == r.min.x && x2 == r.max.x, "span k is row min.y+k, columns [min.x, max.x)");
                if with_mask {
                    assert!(mp == mask_ptr + ((y - my) * mw + (r.min.x - mx)) as usize && ml == (r.max.x - r.min.x) as usize,
                            "coverage bytes for device pixel (px,py) are mask[(py-my)*mw + (px-mx)]");
                }
            }
            k += 1;
        }
    }
    assert!(dt.transform == Transform::identity() && dt.clip_stack.len() == (if with_clip > 0 { 1 } else { 0 }) && dt.layer_stack.len() == (if with_layer { 1 } else { 0 }), "composite leaves transform, clip stack and layer stack alone");
    kani::cover!(rec.n == 2);
    kani::cover!(rec.n == 0);
}

// @ob id=K.composite_mask props=C02,C03,C05,C06,C07 kind=bounded:surface=3x2 tier=quick timeout=900 fns=DrawTarget::composite
// @+ desc="composite with a mask, for every WF clip/layer configuration (none | rect clip | rect+mask clip) x (surface | one layer): blit_span is called exactly once per row of R = rect ∩ clip bounds ∩ destination bounds ∩ mask rect, in order, with x1=R.min.x, x2=R.max.x and the mask sub-slice at (y-mr.y)*mr.w + (R.min.x-mr.x) of length R.width; zero calls when R is empty/inverted; the destination handed to the blitter is the innermost layer's buffer/rect if any; every blit_span precondition holds; rect and mask position symbolic in ±1000"
#[kani::proof]
#[kani::unwind(10)]
#[kani::stub(DrawTarget::choose_blitter, choose_blitter_rec)]
fn k_composite_mask() {
    let with_clip: u8 = kani::any();
    kani::assume(with_clip <= 2);
    composite_contract(with_clip, kani::any(), true);
}

// @ob id=K.composite_nomask props=C02,C06,C07,C14 kind=bounded:surface=3x2 tier=quick timeout=900 fns=DrawTarget::composite
// @+ desc="composite without a mask (fill_rect fast path): same call-log contract, empty mask slices"
#[kani::proof]
#[kani::unwind(10)]
#[kani::stub(DrawTarget::choose_blitter, choose_blitter_rec)]
fn k_composite_nomask() {
    let with_clip: u8 = kani::any();
    kani::assume(with_clip <= 2);
    composite_contract(with_clip, kani::any(), false);
}

// @ob id=K.composite_singular props=C11,C07 kind=complete unwind_complete=yes tier=quick timeout=300 fns=DrawTarget::composite
// @+ desc="a non-invertible current transform draws nothing: composite returns before a blitter is built"
#[kani::proof]
#[kani::unwind(10)]
#[kani::stub(DrawTarget::choose_blitter, choose_blitter_rec)]
fn k_composite_singular() {
    let mut dt = DrawTarget::new(CW, CH);
    let a: f32 = kani::any();
    let b: f32 = kani::any();
    kani::assume(a.is_finite() && b.is_finite() && a.abs() < 100. && b.abs() < 100.);
    // rank <= 1 matrices: second row is a multiple of the first in exact arithmetic only when one of them is zero
    dt.transform = if kani::any() { Transform::new(a, b, 0., 0., 1., 2.) } else { Transform::new(0., a, 0., b, 3., 4.) };
    let src = Source::Solid(SolidSource { r: 1, g: 2, b: 3, a: 255 });
    unsafe { REC.chosen = 0; REC.n = 0; }
    let r = intrect(0, 0, CW, CH);
    dt.composite(&src, None, r, r, BlendMode::SrcOver, 1.);
    assert!(unsafe { REC.chosen } == 0, "singular transform: nothing is drawn");
    kani::cover!(a != 0.);
}

// ------------------------------------------------------------------ clip stack (C05 #1,#3,#4; WF for C07 #5)
fn surface_rect() -> IntRect { intrect(0, 0, CW, CH) }
fn rect_in_surface_box(r: IntRect) -> bool { wf_rect(r) }
fn any_mask_bytes() -> Vec<u8> {
    let a: [u8; (CW * CH) as usize + 1] = kani::any();
    a.to_vec()
}
fn wf_target_sym(with_clip: u8) -> DrawTarget {
    let mut dt = DrawTarget::new(CW, CH);
    if with_clip == 1 {
        dt.clip_stack.push(Clip { rect: any_rect_in_surface(), mask: None });
    } else if with_clip == 2 {
        dt.clip_stack.push(Clip { rect: any_rect_in_surface(), mask: Some(any_mask_bytes()) });
    }
    dt
}

fn masks_equal(a: &Vec<u8>, b: &Vec<u8>) -> bool {
    if a.len() != b.len() { return false; }
    let mut i = 0;
    let mut eq = true;
    while i < (CW * CH) as usize + 1 { if i < a.len() && a[i] != b[i] { eq = false; } i += 1; }
    eq
}
/// two rectangles denote the same set of pixels (all empty/inverted rectangles denote the empty set)
fn same_region(a: IntRect, b: IntRect) -> bool {
    let ea = !(a.max.x > a.min.x && a.max.y > a.min.y);
    let eb = !(b.max.x > b.min.x && b.max.y > b.min.y);
    (ea && eb) || (!ea && !eb && a == b)
}
fn push_clip_rect_wf(with_clip: u8) {
    let mut dt = wf_target_sym(with_clip);
    let r = any_rect(-4000, 4000);
    dt.push_clip_rect(r);
    assert!(wf_rect(dt.clip_bounds()), "WF: clip bounds are empty or inside the surface box");
    kani::cover!(r.max.x > CW && r.min.x < 0);
}
// @ob id=K.push_clip_rect_wf0 props=C07 kind=complete unwind_complete=yes tier=quick timeout=600 fns=DrawTarget::push_clip_rect
// @+ desc="WF established by the first push_clip_rect for ANY r in ±4000: the clip bounds are empty or inside the surface (layers are sized by clip bounds and clip masks are indexed by absolute device coordinates, so a clip rectangle larger than the surface must not survive as clip bounds)"
#[kani::proof]
#[kani::unwind(9)]
fn k_push_clip_rect_wf0() { push_clip_rect_wf(0); }
// @ob id=K.push_clip_rect_wf1 props=C07 kind=complete unwind_complete=yes tier=quick timeout=600 fns=DrawTarget::push_clip_rect
// @+ desc="WF preserved by push_clip_rect on a non-empty stack for ANY r in ±4000"
#[kani::proof]
#[kani::unwind(9)]
fn k_push_clip_rect_wf1() { push_clip_rect_wf(1); }

fn push_clip_rect_contract(with_clip: u8) {
    let mut dt = wf_target_sym(with_clip);
    dt.transform = Transform::new(kani::any(), kani::any(), kani::any(), kani::any(), kani::any(), kani::any());
    let t0 = dt.transform;
    let old_bounds = dt.clip_bounds();
    let old_rect = if with_clip > 0 { dt.clip_stack[0].rect } else { surface_rect() };
    let old_mask: Option<Vec<u8>> = if with_clip == 2 { dt.clip_stack[0].mask.clone() } else { None };
    let r = any_rect(-4000, 4000);
    dt.push_clip_rect(r);
    assert!(dt.clip_stack.len() == (if with_clip > 0 { 2 } else { 1 }), "one entry pushed");
    let top = dt.clip_stack.last().unwrap();
    assert!(same_region(isect(top.rect, surface_rect()), isect(isect(old_bounds, r), surface_rect())), "effective clip region = old clip bounds ∩ r (on the surface)");
    if with_clip == 2 {
        match &top.mask {
            Some(n) => assert!(masks_equal(n, old_mask.as_ref().unwrap()), "path-clip coverage below is kept"),
            None => assert!(false, "path-clip coverage below is kept (mask dropped)"),
        }
    } else {
        assert!(top.mask.is_none(), "no mask appears from nowhere");
    }
    if with_clip > 0 {
        assert!(dt.clip_stack[0].rect == old_rect, "lower entry unchanged");
        if with_clip == 2 { assert!(masks_equal(dt.clip_stack[0].mask.as_ref().unwrap(), old_mask.as_ref().unwrap()), "lower entry mask unchanged"); }
    }
    assert!(dt.layer_stack.len() == 0 && dt.width == CW && dt.height == CH && dt.buf.len() == (CW * CH) as usize, "frame");
    assert!(dt.transform.m11.to_bits() == t0.m11.to_bits() && dt.transform.m32.to_bits() == t0.m32.to_bits(), "transform untouched");
    // pop restores
    dt.pop_clip();
    assert!(dt.clip_stack.len() == with_clip.min(1) as usize, "pop removes exactly one entry");
    assert!(dt.clip_bounds() == old_bounds, "clip bounds restored by pop_clip");
    if with_clip == 0 { assert!(old_bounds == surface_rect(), "clip_bounds = surface when no clip"); } else { assert!(old_bounds == old_rect, "clip_bounds = top rect"); }
    kani::cover!(r.max.x > CW);
    kani::cover!(r.max.x < r.min.x);
}
// @ob id=K.push_clip_rect_0 props=C05,C11 kind=complete unwind_complete=yes tier=quick timeout=600 fns=DrawTarget::push_clip_rect,DrawTarget::pop_clip,DrawTarget::clip_bounds
// @+ desc="push_clip_rect(r) on an empty clip stack for ANY r in ±4000 (empty, inverted, off-surface): the effective clip region (clip bounds ∩ surface) = surface ∩ r; pixels, layers, transform unchanged (transform ignored); pop_clip restores exactly the previous state; clip_bounds() = top rect or surface. Loop-free: complete for all rect values (surface size fixed 3x2 only to build the object)"
#[kani::proof]
#[kani::unwind(9)]
fn k_push_clip_rect_0() { push_clip_rect_contract(0); }

// @ob id=K.push_clip_rect_1 props=C05 kind=complete unwind_complete=yes tier=quick timeout=600 fns=DrawTarget::push_clip_rect,DrawTarget::pop_clip
// @+ desc="push_clip_rect(r) on top of a rectangular clip entry: effective clip region = old clip bounds ∩ r; lower entry unchanged; pop restores"
#[kani::proof]
#[kani::unwind(9)]
fn k_push_clip_rect_1() { push_clip_rect_contract(1); }

// @ob id=K.push_clip_rect_2 props=C05,C10 kind=bounded:surface=3x2 tier=quick timeout=600 fns=DrawTarget::push_clip_rect,DrawTarget::pop_clip
// @+ desc="push_clip_rect(r) on top of a PATH clip entry (symbolic coverage bytes): the new top entry keeps that coverage mask byte for byte (the top entry represents the intersection of everything pushed, so path clips below stay in force); lower entry unchanged; pop restores"
#[kani::proof]
#[kani::unwind(9)]
fn k_push_clip_rect_2() { push_clip_rect_contract(2); }

// ------------------------------------------------------------------ layers (C06 #1, C07 #5)
// @ob id=K.push_layer props=C06,C07 kind=bounded:surface=3x2 tier=quick timeout=600 fns=DrawTarget::push_layer_with_blend,DrawTarget::push_layer
// @+ desc="push_layer_with_blend(o,b) under any WF clip (incl. empty and inverted clip bounds) never panics and pushes Layer{rect: clip bounds, buf: zeros of len max(w,0)*max(h,0), opacity o, blend b}; surface pixels, clip stack and transform unchanged; push_layer(o) == push_layer_with_blend(o, SrcOver)"
#[kani::proof]
#[kani::unwind(9)]
fn k_push_layer() {
    let with_clip: u8 = 1;
    let mut dt = wf_target_sym(with_clip);
    let bounds = dt.clip_bounds();
    let o: f32 = kani::any();
    let which: bool = kani::any();
    if which { dt.push_layer_with_blend(o, BlendMode::Multiply); } else { dt.push_layer(o); }
    assert!(dt.layer_stack.len() == 1, "one layer pushed");
    let l = &dt.layer_stack[0];
    let w = (bounds.max.x - bounds.min.x).max(0);
    let h = (bounds.max.y - bounds.min.y).max(0);
    assert!(l.rect == bounds, "layer rect = clip bounds");
    assert!(l.buf.len() == (w * h) as usize, "layer buffer has max(w,0)*max(h,0) pixels");
    let mut i = 0;
    while i < (CW * CH) as usize { if i < l.buf.len() { assert!(l.buf[i] == 0, "layer starts transparent"); } i += 1; }
    assert!(l.opacity.to_bits() == o.to_bits() && l.blend == (if which { BlendMode::Multiply } else { BlendMode::SrcOver }), "opacity and blend stored");
    assert!(dt.clip_stack.len() == with_clip as usize && dt.transform == Transform::identity(), "clip stack and transform unchanged");
    kani::cover!(bounds.max.x < bounds.min.x);
    kani::cover!(w == 3 && h == 2);
}

// ------------------------------------------------------------------ callers of composite (C02 #6, C03 #6, C06 #4, C14 #1)
pub struct CompLog {
    pub n: usize,
    pub mask_ptr: usize, pub mask_len: usize, pub mask_first: u8, pub mask_last: u8, pub has_mask: bool,
    pub mask_rect: IntRect, pub rect: IntRect, pub blend: BlendMode, pub alpha_bits: u32,
    pub transform_at_call: [u32; 6],
    pub layers_at_call: usize,
    pub src_kind: u8, // 0 solid, 1 image, 2 other
    pub solid: u32,
    pub img: (i32, i32, usize, usize), // width, height, data ptr, data len
    pub img_pad_nearest: bool,
    pub img_xf: [u32; 6],
}
const ZR: IntRect = IntRect { min: euclid::Point2D { x: 0, y: 0, _unit: std::marker::PhantomData }, max: euclid::Point2D { x: 0, y: 0, _unit: std::marker::PhantomData } };
pub static mut COMP: CompLog = CompLog { n: 0, mask_ptr: 0, mask_len: 0, mask_first: 0, mask_last: 0, has_mask: false, mask_rect: ZR, rect: ZR, blend: BlendMode::Dst, alpha_bits: 0,
    transform_at_call: [0; 6], layers_at_call: 0, src_kind: 0, solid: 0, img: (0, 0, 0, 0), img_pad_nearest: false, img_xf: [0; 6] };
fn xf_bits(t: &Transform) -> [u32; 6] { [t.m11.to_bits(), t.m12.to_bits(), t.m21.to_bits(), t.m22.to_bits(), t.m31.to_bits(), t.m32.to_bits()] }
fn composite_rec<Backing: AsRef<[u32]> + AsMut<[u32]>>(dt: &mut DrawTarget<Backing>, src: &Source, mask: Option<&[u8]>, mask_rect: IntRect, rect: IntRect, blend: BlendMode, alpha: f32) {
    unsafe {
        COMP.n += 1;
        COMP.has_mask = mask.is_some();
        if let Some(m) = mask {
            COMP.mask_ptr = m.as_ptr() as usize; COMP.mask_len = m.len();
            if m.len() > 0 { COMP.mask_first = m[0]; COMP.mask_last = m[m.len() - 1]; }
        }
        COMP.mask_rect = mask_rect; COMP.rect = rect; COMP.blend = blend; COMP.alpha_bits = alpha.to_bits();
        COMP.transform_at_call = xf_bits(&dt.transform);
        COMP.layers_at_call = dt.layer_stack.len();
        match src {
            Source::Solid(c) => { COMP.src_kind = 0; COMP.solid = c.to_u32(); }
            Source::Image(img, ext, filt, xf) => {
                COMP.src_kind = 1;
                COMP.img = (img.width, img.height, img.data.as_ptr() as usize, img.data.len());
                COMP.img_pad_nearest = matches!(ext, ExtendMode::Pad) && *filt == FilterMode::Nearest;
                COMP.img_xf = xf_bits(xf);
            }
            _ => { COMP.src_kind = 2; }
        }
    }
}
fn comp_reset() { unsafe { COMP.n = 0; FILL.n = 0; } }
fn xf_eq(a: &[u32; 6], b: &[u32; 6]) -> bool { a[0] == b[0] && a[1] == b[1] && a[2] == b[2] && a[3] == b[3] && a[4] == b[4] && a[5] == b[5] }
pub struct FillLog { pub n: usize, pub ops: usize, pub pts: [(u32, u32); 4], pub closed: bool, pub winding: Winding, pub blend: BlendMode, pub alpha_bits: u32, pub aa: AntialiasMode, pub solid: u32, pub src_kind: u8, pub transform_at_call: [u32; 6] }
pub static mut FILL: FillLog = FillLog { n: 0, ops: 0, pts: [(0, 0); 4], closed: false, winding: Winding::NonZero, blend: BlendMode::Dst, alpha_bits: 0, aa: AntialiasMode::None, solid: 0, src_kind: 0, transform_at_call: [0; 6] };
fn fill_rec<Backing: AsRef<[u32]> + AsMut<[u32]>>(dt: &mut DrawTarget<Backing>, path: &Path, src: &Source, options: &DrawOptions) {
    unsafe {
        FILL.n += 1;
        FILL.ops = path.ops.len();
        FILL.winding = path.winding;
        FILL.closed = false;
        let mut i = 0;
        while i < 5 {
            if i < path.ops.len() {
                match path.ops[i] {
                    PathOp::MoveTo(p) | PathOp::LineTo(p) => { if i < 4 { FILL.pts[i] = (p.x.to_bits(), p.y.to_bits()); } }
                    PathOp::Close => { if i == 4 { FILL.closed = true; } }
                    _ => {}
                }
            }
            i += 1;
        }
        FILL.blend = options.blend_mode; FILL.alpha_bits = options.alpha.to_bits(); FILL.aa = options.antialias;
        match src { Source::Solid(c) => { FILL.src_kind = 0; FILL.solid = c.to_u32(); } Source::Image(..) => { FILL.src_kind = 1; } _ => { FILL.src_kind = 2; } }
        FILL.transform_at_call = xf_bits(&dt.transform);
    }
}

// @ob id=K.mask_args props=C03,C02,C07,C11 kind=complete unwind_complete=yes tier=quick timeout=300 fns=DrawTarget::mask
// @+ desc="mask(src,x,y,m) composites with mask rect = shape rect = [x,x+m.width) x [y,y+m.height), SrcOver, alpha 1, m.data as coverage (so by K.composite_mask the byte for device pixel (px,py) is m.data[(py-y)*m.width+(px-x)] and nothing outside that rectangle changes), for every x,y in ±4000 and any transform (ignored)"
#[kani::proof]
#[kani::unwind(9)]
#[kani::stub(DrawTarget::composite, composite_rec)]
fn k_mask_args() {
    let mut dt = DrawTarget::new(CW, CH);
    let x: i32 = kani::any();
    let y: i32 = kani::any();
    let w: i32 = kani::any();
    let h: i32 = kani::any();
    kani::assume(x >= -4000 && x <= 4000 && y >= -4000 && y <= 4000 && w >= 1 && w <= 3 && h >= 1 && h <= 2);
    let m = Mask { width: w, height: h, data: vec![7u8; (w * h) as usize] };
    let src = Source::Solid(SolidSource { r: 1, g: 2, b: 3, a: 255 });
    comp_reset();
    dt.mask(&src, x, y, &m);
    let c = unsafe { &COMP };
    assert!(c.n == 1, "one composite");
    assert!(c.mask_rect == intrect(x, y, x + w, y + h), "mask rect = [x,x+w) x [y,y+h)");
    assert!(c.rect == intrect(x, y, x + w, y + h), "shape rect = [x,x+w) x [y,y+h)");
    assert!(c.has_mask && c.mask_ptr == m.data.as_ptr() as usize && c.mask_len == m.data.len(), "coverage = the mask's bytes");
    assert!(c.blend == BlendMode::SrcOver && c.alpha_bits == 1f32.to_bits(), "SrcOver, alpha 1");
    kani::cover!(x == 2 && y == 1 && w == 2 && h == 2);
}

// @ob id=K.pop_layer_args props=C06,C02,C11,C10 kind=bounded:surface=3x2 tier=quick timeout=600 fns=DrawTarget::pop_layer
// @+ desc="pop_layer pops exactly one layer and composites ONCE: source = the layer buffer as a Pad/Nearest image of the layer's size translated so texel (i,j) sits at device (rect.min.x+i, rect.min.y+j); coverage = round(opacity*255) at every surface pixel (mask rect = whole surface); region = layer rect; blend = layer blend; alpha 1; under the identity transform; destination = what is on top after the pop; the current transform is restored bit for bit"
#[kani::proof]
#[kani::unwind(9)]
#[kani::stub(DrawTarget::composite, composite_rec)]
fn k_pop_layer_args() { pop_layer_args(false); }
// @ob id=K.pop_layer_args_nested props=C06,C10 kind=bounded:surface=3x2 tier=quick timeout=600 fns=DrawTarget::pop_layer
// @+ desc="pop_layer with another layer beneath: same contract; the destination of the single composite is the layer beneath (layers nest)"
#[kani::proof]
#[kani::unwind(9)]
#[kani::stub(DrawTarget::composite, composite_rec)]
fn k_pop_layer_args_nested() { pop_layer_args(true); }
fn pop_layer_args(nested: bool) {
    let mut dt = DrawTarget::new(CW, CH);
    if nested { dt.layer_stack.push(Layer { buf: vec![0u32; 6], opacity: 1., rect: surface_rect(), blend: BlendMode::SrcOver }); }
    let rect = any_rect_in_surface();
    let w = (rect.max.x - rect.min.x).max(0);
    let h = (rect.max.y - rect.min.y).max(0);
    let opacity: f32 = kani::any();
    kani::assume(opacity >= 0. && opacity <= 1.);
    dt.layer_stack.push(Layer { buf: vec![0u32; (w * h) as usize], opacity, rect, blend: BlendMode::Multiply });
    let t = Transform::new(kani::any(), kani::any(), kani::any(), kani::any(), kani::any(), kani::any());
    dt.transform = t;
    comp_reset();
    dt.pop_layer();
    let c = unsafe { &COMP };
    assert!(dt.layer_stack.len() == (if nested { 1 } else { 0 }), "exactly one layer popped");
    assert!(c.n == 1, "composited exactly once");
    assert!(c.layers_at_call == (if nested { 1 } else { 0 }), "destination is the target beneath the popped layer");
    assert!(c.src_kind == 1 && c.img.0 == rect.max.x - rect.min.x && c.img.1 == rect.max.y - rect.min.y && c.img.3 == (w * h) as usize && c.img_pad_nearest, "source = layer buffer as an image of the layer's size");
    assert!(f32::from_bits(c.img_xf[0]) == 1. && f32::from_bits(c.img_xf[1]) == 0. && f32::from_bits(c.img_xf[2]) == 0. && f32::from_bits(c.img_xf[3]) == 1. && f32::from_bits(c.img_xf[4]) == -(rect.min.x as f32) && f32::from_bits(c.img_xf[5]) == -(rect.min.y as f32), "texel (i,j) sits at device (rect.min.x+i, rect.min.y+j)");
    assert!(c.rect == rect && c.mask_rect == surface_rect(), "region = layer rect; coverage mask spans the surface");
    let ob = (opacity * 255. + 0.5) as u8;
    assert!(c.has_mask && c.mask_len == (CW * CH) as usize && c.mask_first == ob && c.mask_last == ob, "coverage = opacity byte everywhere");
    // round(opacity*255): |ob - opacity*255| <= 0.5
    assert!((ob as f32 - opacity * 255.).abs() <= 0.5, "opacity byte = round(opacity*255)");
    assert!(c.blend == BlendMode::Multiply && c.alpha_bits == 1f32.to_bits(), "layer blend mode, alpha 1");
    assert!(xf_eq(&c.transform_at_call, &xf_bits(&Transform::identity())), "composited in device space");
    assert!(xf_eq(&xf_bits(&dt.transform), &xf_bits(&t)), "current transform restored");
    kani::cover!(w == 2 && h == 1 && ob == 128);
}

// @ob id=K.fill_rect_fast props=C14,C02,C07 kind=bounded:surface=3x2 tier=quick timeout=600 fns=DrawTarget::fill_rect
// @+ desc="fill_rect fast path: with identity transform, empty clip stack and integral x,y,w,h it composites without mask over r = [x,x+w) x [y,y+h) ∩ surface (mask rect = r), with the caller's blend mode and alpha, and draws nothing when r is empty (zero/negative sizes, off-surface); x,y,w,h integral in ±4000"
#[kani::proof]
#[kani::unwind(9)]
#[kani::stub(DrawTarget::composite, composite_rec)]
#[kani::stub(DrawTarget::fill, fill_rec)]
fn k_fill_rect_fast() {
    let mut dt = DrawTarget::new(CW, CH);
    let ix: i32 = kani::any();
    let iy: i32 = kani::any();
    let iw: i32 = kani::any();
    let ih: i32 = kani::any();
    kani::assume(ix >= -4000 && ix <= 4000 && iy >= -4000 && iy <= 4000 && iw >= -4000 && iw <= 4000 && ih >= -4000 && ih <= 4000);
    let alpha: f32 = kani::any();
    let src = Source::Solid(SolidSource { r: 1, g: 2, b: 3, a: 255 });
    let opts = DrawOptions { blend_mode: BlendMode::Xor, alpha, antialias: AntialiasMode::Gray };
    comp_reset();
    dt.fill_rect(ix as f32, iy as f32, iw as f32, ih as f32, &src, &opts);
    let c = unsafe { &COMP };
    assert!(unsafe { FILL.n } == 0, "fast path taken (no path fill)");
    let r = isect(intrect(ix, iy, ix + iw, iy + ih), surface_rect());
    if r.min.x >= r.max.x || r.min.y >= r.max.y {
        assert!(c.n == 0, "empty rectangle: nothing drawn");
    } else {
        assert!(c.n == 1 && !c.has_mask, "one mask-less composite");
        assert!(c.rect == r && c.mask_rect == r, "region = rectangle ∩ surface");
        assert!(c.blend == BlendMode::Xor && c.alpha_bits == alpha.to_bits(), "caller's blend mode and alpha");
    }
    kani::cover!(c.n == 1 && r.min.x == 1);
    kani::cover!(c.n == 0 && iw < 0);
}

// ------------------------------------------------------------------ clear (C03 #7, C06 #3, C11 #3, C14 #6)
// @ob id=K.clear_unclipped props=C03,C06,C14 kind=bounded:surface=3x2 tier=quick timeout=600 fns=DrawTarget::clear
// @+ desc="clear(c) with an empty clip stack: every pixel of the CURRENT TARGET (innermost open layer if any, else the surface) equals c.to_u32() exactly, and the surface beneath an open layer is untouched; transform unchanged"
#[kani::proof]
#[kani::unwind(9)]
#[kani::stub(DrawTarget::fill, fill_rec)]
fn k_clear_unclipped() {
    let mut dt = DrawTarget::new(CW, CH);
    let with_layer: bool = kani::any();
    let surf0: [u32; 6] = kani::any();
    dt.buf.copy_from_slice(&surf0);
    if with_layer {
        let l0: [u32; 6] = kani::any();
        dt.layer_stack.push(Layer { buf: l0.to_vec(), opacity: 1., rect: surface_rect(), blend: BlendMode::SrcOver });
    }
    let c = SolidSource { r: kani::any(), g: kani::any(), b: kani::any(), a: kani::any() };
    comp_reset();
    dt.clear(c);
    let mut i = 0;
    while i < 6 {
        if with_layer {
            assert!(unsafe { FILL.n } == 1 || dt.layer_stack[0].buf[i] == c.to_u32(), "clear targets the innermost open layer");
            assert!(dt.buf[i] == surf0[i], "the surface beneath an open layer is untouched by clear");
        } else {
            assert!(unsafe { FILL.n } == 1 || dt.buf[i] == c.to_u32(), "every pixel equals the requested colour exactly");
        }
        i += 1;
    }
    if unsafe { FILL.n } == 1 {
        // routed through the general path: must be the full-surface Src fill
        let f = unsafe { &FILL };
        assert!(f.blend == BlendMode::Src && f.alpha_bits == 1f32.to_bits() && f.src_kind == 0 && f.solid == c.to_u32(), "general route: Src fill of the colour, alpha 1");
        assert!(f.ops == 5 && f.closed && f.pts[0] == (0f32.to_bits(), 0f32.to_bits()) && f.pts[2] == ((CW as f32).to_bits(), (CH as f32).to_bits()), "general route: the whole surface rectangle");
        assert!(xf_eq(&f.transform_at_call, &xf_bits(&Transform::identity())), "general route: device space");
    }
    assert!(dt.transform == Transform::identity(), "transform unchanged");
    kani::cover!(with_layer);
    kani::cover!(!with_layer);
}

fn clear_clipped_contract(clip_kind: u8) {
    let mut dt = wf_target_sym(clip_kind);
    let crect = dt.clip_bounds();
    let t = Transform::new(kani::any(), kani::any(), kani::any(), kani::any(), kani::any(), kani::any());
    dt.transform = t;
    let surf0: [u32; 6] = kani::any();
    dt.buf.copy_from_slice(&surf0);
    let c = SolidSource { r: kani::any(), g: kani::any(), b: kani::any(), a: kani::any() };
    comp_reset();
    dt.clear(c);
    let f = unsafe { &FILL };
    if f.n == 0 {
        // a direct write is acceptable only where it is indistinguishable from the clipped fill: a rectangular clip
        // (no path coverage), every pixel inside the clip rectangle set to the colour, every pixel outside untouched
        assert!(clip_kind == 1, "under a clip PATH clear() must go through the clipped fill (coverage weighting)");
        let mut i = 0;
        while i < 6 {
            let (x, y) = ((i % 3) as i32, (i / 3) as i32);
            let inside = x >= crect.min.x && x < crect.max.x && y >= crect.min.y && y < crect.max.y;
            assert!(dt.buf[i] == if inside { c.to_u32() } else { surf0[i] }, "direct clear writes exactly the clip rectangle");
            i += 1;
        }
    } else {
        assert!(f.n == 1, "one fill");
        assert!(f.blend == BlendMode::Src && f.alpha_bits == 1f32.to_bits() && f.src_kind == 0 && f.solid == c.to_u32(), "Src fill of the colour, alpha 1");
        assert!(f.ops == 5 && f.closed, "a closed rectangle path");
        assert!(f.pts[0] == (0f32.to_bits(), 0f32.to_bits()) && f.pts[1] == ((CW as f32).to_bits(), 0f32.to_bits())
             && f.pts[2] == ((CW as f32).to_bits(), (CH as f32).to_bits()) && f.pts[3] == (0f32.to_bits(), (CH as f32).to_bits()), "the whole surface rectangle");
        assert!(xf_eq(&f.transform_at_call, &xf_bits(&Transform::identity())), "filled in device space");
        let mut i = 0;
        while i < 6 { assert!(dt.buf[i] == surf0[i], "no direct write bypasses the clip"); i += 1; }
    }
    assert!(xf_eq(&xf_bits(&dt.transform), &xf_bits(&t)), "current transform restored");
    kani::cover!(f.n == 1);
}
// @ob id=K.clear_unclipped_nested props=C06 kind=bounded:surface=3x2 tier=quick timeout=600 fns=DrawTarget::clear
// @+ desc="clear(c) with an empty clip stack and TWO open layers: the INNERMOST layer is filled with the colour; the outer layer and the surface are untouched"
#[kani::proof]
#[kani::unwind(9)]
#[kani::stub(DrawTarget::fill, fill_rec)]
fn k_clear_unclipped_nested() {
    let mut dt = DrawTarget::new(CW, CH);
    let surf0: [u32; 6] = kani::any();
    dt.buf.copy_from_slice(&surf0);
    let outer0: [u32; 6] = kani::any();
    let inner0: [u32; 6] = kani::any();
    dt.layer_stack.push(Layer { buf: outer0.to_vec(), opacity: 1., rect: surface_rect(), blend: BlendMode::SrcOver });
    dt.layer_stack.push(Layer { buf: inner0.to_vec(), opacity: 1., rect: surface_rect(), blend: BlendMode::SrcOver });
    let c = SolidSource { r: kani::any(), g: kani::any(), b: kani::any(), a: kani::any() };
    comp_reset();
    dt.clear(c);
    let mut i = 0;
    while i < 6 {
        assert!(unsafe { FILL.n } == 1 || dt.layer_stack[1].buf[i] == c.to_u32(), "clear targets the innermost open layer");
        assert!(dt.layer_stack[0].buf[i] == outer0[i], "the outer layer is untouched");
        assert!(dt.buf[i] == surf0[i], "the surface is untouched");
        i += 1;
    }
    kani::cover!(true);
}
// @ob id=K.clear_clipped props=C03,C05,C06,C11,C14 kind=bounded:surface=3x2 tier=quick timeout=600 fns=DrawTarget::clear
// @+ desc="clear(c) under a rectangular clip (symbolic rect): either exactly one fill of the rectangle (0,0,width,height) with Source::Solid(c), blend Src, alpha 1, under the identity transform (so it goes through the clip and layer selection of composite) and no direct write, or a direct write of exactly the clip rectangle's pixels; the current transform is restored bit for bit"
#[kani::proof]
#[kani::unwind(9)]
#[kani::stub(DrawTarget::fill, fill_rec)]
fn k_clear_clipped() { clear_clipped_contract(1); }
// @ob id=K.clear_clip_path props=C05,C03 kind=bounded:surface=3x2 tier=quick timeout=600 fns=DrawTarget::clear
// @+ desc="clear(c) under a clip PATH (symbolic coverage mask, any clip bounds incl. the whole surface): must be the clipped Src fill (coverage-weighted), never a direct buffer write; transform restored"
#[kani::proof]
#[kani::unwind(9)]
#[kani::stub(DrawTarget::fill, fill_rec)]
fn k_clear_clip_path() { clear_clipped_contract(2); }

// ------------------------------------------------------------------ path -> edges (C01 #10, C08 #1, C10 #4, C11 #1)
pub const EDGE_CAP: usize = 10;
#[derive(Clone, Copy, PartialEq)]
pub struct EdgeRec { pub sx: f32, pub sy: f32, pub ex: f32, pub ey: f32, pub curve: bool, pub cx: f32, pub cy: f32 }
pub static mut EDGES: [EdgeRec; EDGE_CAP] = [EdgeRec { sx: 0., sy: 0., ex: 0., ey: 0., curve: false, cx: 0., cy: 0. }; EDGE_CAP];
pub static mut EDGE_N: usize = 0;
fn add_edge_rec(_r: &mut Rasterizer, start: Point, end: Point, curve: bool, control: Point) {
    unsafe {
        if EDGE_N < EDGE_CAP { EDGES[EDGE_N] = EdgeRec { sx: start.x, sy: start.y, ex: end.x, ey: end.y, curve, cx: control.x, cy: control.y }; }
        EDGE_N += 1;
    }
}
fn edges_reset() { unsafe { EDGE_N = 0; CURVE_CALLS = 0; } }
pub static mut CURVE_CALLS: usize = 0;
// line-only harnesses cut the curve arms off (their contracts are C08's): reaching them is recorded
fn quad_to_rec<Backing: AsRef<[u32]> + AsMut<[u32]>>(_dt: &mut DrawTarget<Backing>, _cpt: Point, _pt: Point) { unsafe { CURVE_CALLS += 1; } }
fn cubic_to_rec<Backing: AsRef<[u32]> + AsMut<[u32]>>(_dt: &mut DrawTarget<Backing>, _cpt1: Point, _cpt2: Point, _pt: Point) { unsafe { CURVE_CALLS += 1; } }
fn edges_snapshot() -> ([EdgeRec; EDGE_CAP], usize) { unsafe { (EDGES, EDGE_N) } }

fn small_pt() -> Point {
    let x: i8 = kani::any();
    let y: i8 = kani::any();
    Point::new(x as f32 * 0.25, y as f32 * 0.25)
}
fn any_line_op() -> PathOp {
    let k: u8 = kani::any();
    kani::assume(k <= 2);
    match k { 0 => PathOp::MoveTo(small_pt()), 1 => PathOp::LineTo(small_pt()), _ => PathOp::Close }
}

/// expected edge list of a line-only path: one edge per LineTo, a closing edge at Close, at a following MoveTo and at
/// the end (implicit close); after Close the cursor is the subpath's first point.
fn expect_edges(ops: &[PathOp], out: &mut [EdgeRec; EDGE_CAP]) -> usize {
    let mut n = 0;
    let mut cur: Option<Point> = None;
    let mut first: Option<Point> = None;
    let mut i = 0;
    while i <= ops.len() {
        let op = if i < ops.len() { ops[i] } else { PathOp::Close };
        let is_move = matches!(op, PathOp::MoveTo(_));
        if is_move || matches!(op, PathOp::Close) {
            if let (Some(f), Some(c)) = (first, cur) {
                if n < EDGE_CAP { out[n] = EdgeRec { sx: c.x, sy: c.y, ex: f.x, ey: f.y, curve: false, cx: 0., cy: 0. }; }
                n += 1;
            }
            cur = first;
        }
        match op {
            PathOp::MoveTo(p) => { cur = Some(p); first = Some(p); }
            PathOp::LineTo(p) => {
                if cur.is_none() { cur = Some(p); first = Some(p); }
                let c = cur.unwrap();
                if n < EDGE_CAP { out[n] = EdgeRec { sx: c.x, sy: c.y, ex: p.x, ey: p.y, curve: false, cx: 0., cy: 0. }; }
                n += 1;
                cur = Some(p);
            }
            _ => {}
        }
        i += 1;
    }
    n
}

// @ob id=K.apply_path_edges props=C01,C08,C10 kind=bounded:ops<=3 tier=quick timeout=900 fns=DrawTarget::apply_path,DrawTarget::move_to,DrawTarget::line_to,DrawTarget::close
// @+ desc="apply_path on a fresh target, every sequence of 3 ops over {MoveTo, LineTo, Close} with symbolic quarter-grid points: the add_edge calls are exactly the polygon's edge list (one edge per LineTo, a closing edge at Close, at a following MoveTo and at the end; after Close the cursor is the subpath's first point); Rasterizer::add_edge replaced by a recorder"
#[kani::proof]
#[kani::unwind(10)]
#[kani::stub(Rasterizer::add_edge, add_edge_rec)]
#[kani::stub(DrawTarget::quad_to, quad_to_rec)]
#[kani::stub(DrawTarget::cubic_to, cubic_to_rec)]
fn k_apply_path_edges() {
    let n: usize = 3;
    let all = [any_line_op(), any_line_op(), any_line_op()];
    let path = Path { ops: vec![all[0], all[1], all[2]], winding: Winding::NonZero };
    let mut dt = DrawTarget::new(CW, CH);
    edges_reset();
    dt.apply_path(&path);
    let (got, gn) = edges_snapshot();
    let mut exp = got;
    let en = expect_edges(&all[..n], &mut exp);
    assert!(gn == en, "number of edges");
    let mut i = 0;
    while i < 5 { if i < en { assert!(got[i] == exp[i], "edge list equals the polygon's edges"); } i += 1; }
    kani::cover!(en == 4);
    kani::cover!(en == 0);
}

// @ob id=K.apply_path_no_residue props=C10 kind=bounded:ops<=3 tier=quick timeout=900 fns=DrawTarget::apply_path
// @+ desc="no residue: for two targets that differ only in the path cursor left behind by an earlier path (any stale current/first point), the same path (3 ops over {MoveTo, LineTo, Close}, whatever op it starts with) produces the same add_edge sequence"
#[kani::proof]
#[kani::unwind(10)]
#[kani::stub(Rasterizer::add_edge, add_edge_rec)]
#[kani::stub(DrawTarget::quad_to, quad_to_rec)]
#[kani::stub(DrawTarget::cubic_to, cubic_to_rec)]
fn k_apply_path_no_residue() {
    let n: usize = 3;
    let all = [any_line_op(), any_line_op(), any_line_op()];
    let path = Path { ops: vec![all[0], all[1], all[2]], winding: Winding::NonZero };
    let mut fresh = DrawTarget::new(CW, CH);
    edges_reset();
    fresh.apply_path(&path);
    let (e0, n0) = edges_snapshot();
    // a target that has already drawn something: whatever apply_path leaves behind
    let mut used = DrawTarget::new(CW, CH);
    let earlier = Path { ops: vec![any_line_op(), any_line_op()], winding: Winding::NonZero };
    used.apply_path(&earlier);
    edges_reset();
    used.apply_path(&path);
    let (e1, n1) = edges_snapshot();
    assert!(n0 == n1, "same number of edges whatever was drawn before");
    let mut i = 0;
    while i < 5 { if i < n0 { assert!(e0[i] == e1[i], "same edges whatever was drawn before"); } i += 1; }
    kani::cover!(n0 == 3);
}


// ------------------------------------------------------------------ dispatch (C03 #1, #2)
macro_rules! check_mode {
    ($mode:ident, $s:expr, $d:expr) => {{
        let mut dst = [$d];
        let f = build_blend_proc::<BlendRow>(BlendMode::$mode);
        f(&[$s], &mut dst);
        assert!(dst[0] == <blend::$mode as blend::Blend>::blend($s, $d), concat!("BlendMode::", stringify!($mode), " dispatches to sw_composite::blend::", stringify!($mode)));
    }};
}
fn pmv(p: u32) -> bool { let a = p >> 24; ((p >> 16) & 0xff) <= a && ((p >> 8) & 0xff) <= a && (p & 0xff) <= a }
fn blend_dispatch_on(s: u32, d: u32) -> [u32; 28] {
    check_mode!(Dst, s, d); check_mode!(Src, s, d); check_mode!(Clear, s, d); check_mode!(SrcOver, s, d); check_mode!(DstOver, s, d); check_mode!(SrcIn, s, d); check_mode!(DstIn, s, d); check_mode!(SrcOut, s, d); check_mode!(DstOut, s, d); check_mode!(SrcAtop, s, d); check_mode!(DstAtop, s, d); check_mode!(Xor, s, d); check_mode!(Add, s, d); check_mode!(Screen, s, d); check_mode!(Overlay, s, d); check_mode!(Darken, s, d); check_mode!(Lighten, s, d); check_mode!(ColorDodge, s, d); check_mode!(ColorBurn, s, d); check_mode!(HardLight, s, d); check_mode!(SoftLight, s, d); check_mode!(Difference, s, d); check_mode!(Exclusion, s, d); check_mode!(Multiply, s, d); check_mode!(Hue, s, d); check_mode!(Saturation, s, d); check_mode!(Color, s, d); check_mode!(Luminosity, s, d);
    [<blend::Dst as blend::Blend>::blend(s, d), <blend::Src as blend::Blend>::blend(s, d), <blend::Clear as blend::Blend>::blend(s, d), <blend::SrcOver as blend::Blend>::blend(s, d), <blend::DstOver as blend::Blend>::blend(s, d), <blend::SrcIn as blend::Blend>::blend(s, d), <blend::DstIn as blend::Blend>::blend(s, d), <blend::SrcOut as blend::Blend>::blend(s, d), <blend::DstOut as blend::Blend>::blend(s, d), <blend::SrcAtop as blend::Blend>::blend(s, d), <blend::DstAtop as blend::Blend>::blend(s, d), <blend::Xor as blend::Blend>::blend(s, d), <blend::Add as blend::Blend>::blend(s, d), <blend::Screen as blend::Blend>::blend(s, d), <blend::Overlay as blend::Blend>::blend(s, d), <blend::Darken as blend::Blend>::blend(s, d), <blend::Lighten as blend::Blend>::blend(s, d), <blend::ColorDodge as blend::Blend>::blend(s, d), <blend::ColorBurn as blend::Blend>::blend(s, d), <blend::HardLight as blend::Blend>::blend(s, d), <blend::SoftLight as blend::Blend>::blend(s, d), <blend::Difference as blend::Blend>::blend(s, d), <blend::Exclusion as blend::Blend>::blend(s, d), <blend::Multiply as blend::Blend>::blend(s, d), <blend::Hue as blend::Blend>::blend(s, d), <blend::Saturation as blend::Blend>::blend(s, d), <blend::Color as blend::Blend>::blend(s, d), <blend::Luminosity as blend::Blend>::blend(s, d)]
}
// @ob id=K.build_blend_proc props=C03,C15 kind=bounded:1-concrete-pixel-pair tier=quick timeout=900 fns=build_blend_proc,BlendRow::build
// @+ desc="build_blend_proc::<BlendRow>: each of the 28 BlendMode values yields a row proc that computes sw_composite::blend::<same name>::blend(src,dst); decided on one concrete premultiplied pixel pair on which the 28 reference blends are pairwise different (asserted), so any swapped or missing arm is caught (symbolic pixels through 28 blend bodies, 7 of them with wide division, do not finish in CBMC)"
#[kani::proof]
#[kani::unwind(30)]
fn k_build_blend_proc() {
    let a = blend_dispatch_on(0xc0804020, 0xa0209060);
    let mut i = 0;
    while i < 28 {
        let mut j = i + 1;
        while j < 28 {
            assert!(a[i] != a[j], "the probe pixel pair separates every pair of blend modes");
            j += 1;
        }
        i += 1;
    }
    kani::cover!(true);
}

// @ob id=K.blender_build props=C03 kind=bounded:len<=2 tier=quick timeout=600 fns=BlendRowMask::build,BlendRowMaskClip::build
// @+ desc="the masked and the masked+clipped row-proc families are the instantiations of blend_row_mask / blend_row_mask_clip (for any T): same result as calling those directly"
#[kani::proof]
#[kani::unwind(8)]
#[kani::stub(sw_composite::lerp, lerp_uf)]
#[kani::stub(sw_composite::alpha_lerp, alpha_lerp_uf)]
fn k_blender_build() {
    let src: [u32; 2] = kani::any();
    let mask: [u8; 2] = kani::any();
    let clip: [u8; 2] = kani::any();
    let old: [u32; 2] = kani::any();
    uf_reset();
    let mut d1 = old; let mut d2 = old;
    (<BlendRowMask as Blender>::build::<FnBlend>())(&src, &mask, &mut d1);
    blend_row_mask::<FnBlend>(&src, &mask, &mut d2);
    assert!(d1[0] == d2[0] && d1[1] == d2[1], "BlendRowMask::build::<T>() is blend_row_mask::<T>");
    let mut d3 = old; let mut d4 = old;
    (<BlendRowMaskClip as Blender>::build::<FnBlend>())(&src, &mask, &clip, &mut d3);
    blend_row_mask_clip::<FnBlend>(&src, &mask, &clip, &mut d4);
    assert!(d3[0] == d4[0] && d3[1] == d4[1], "BlendRowMaskClip::build::<T>() is blend_row_mask_clip::<T>");
    kani::cover!(mask[0] != 0 && clip[1] != 0);
}

fn choose_blitter_case(with_mask: bool, clip_kind: u8, srcover: bool) {
    let shader = NopShader;
    let maskbuf = [0u8; 6];
    let mut clip_stack: Vec<Clip> = Vec::new();
    if clip_kind == 1 { clip_stack.push(Clip { rect: surface_rect(), mask: None }); }
    if clip_kind == 2 { clip_stack.push(Clip { rect: surface_rect(), mask: None }); clip_stack.push(Clip { rect: surface_rect(), mask: Some(vec![0u8; 7]) }); }
    let mut dest = [0u32; 6];
    let dest_ptr = dest.as_ptr() as usize;
    let db = any_rect(-1000, 1000);
    let width: i32 = kani::any();
    kani::assume(width >= 0 && width <= 8);
    let blend = if srcover { BlendMode::SrcOver } else { BlendMode::Xor };
    let mut storage = ShaderBlitterStorage::None;
    let clip_ptr = match clip_stack.last() { Some(Clip { rect: _, mask: Some(m) }) => m.as_ptr() as usize, _ => 0 };
    {
        let _b = DrawTarget::choose_blitter(if with_mask { Some(&maskbuf[..]) } else { None }, &clip_stack, &mut storage, &shader, blend, &mut dest[..], db, width);
    }
    let sw = db.max.x - db.min.x;
    match (&storage, with_mask, clip_kind == 2, srcover) {
        (ShaderBlitterStorage::ShaderClipMaskBlitter(b), true, true, true) => {
            assert!(b.x == db.min.x && b.y == db.min.y && b.dest_stride == sw && b.tmp.len() == width as usize && b.dest.as_ptr() as usize == dest_ptr && b.dest.len() == 6, "origin, stride, scratch row, destination");
            assert!(b.clip.as_ptr() as usize == clip_ptr && b.clip.len() == 7 && b.clip_stride == width, "clip = top entry's mask, indexed with the surface width");
        }
        (ShaderBlitterStorage::ShaderClipBlendMaskBlitter(b), true, true, false) => {
            assert!(b.x == db.min.x && b.y == db.min.y && b.dest_stride == sw && b.tmp.len() == width as usize && b.dest.as_ptr() as usize == dest_ptr && b.dest.len() == 6, "origin, stride, scratch row, destination");
            assert!(b.clip.as_ptr() as usize == clip_ptr && b.clip.len() == 7 && b.clip_stride == width, "clip = top entry's mask, indexed with the surface width");
            assert!(b.blend_fn as usize == build_blend_proc::<BlendRowMaskClip>(blend) as usize, "row proc of the requested mode");
        }
        (ShaderBlitterStorage::ShaderMaskBlitter(b), true, false, true) => {
            assert!(b.x == db.min.x && b.y == db.min.y && b.dest_stride == sw && b.tmp.len() == width as usize && b.dest.as_ptr() as usize == dest_ptr && b.dest.len() == 6, "origin, stride, scratch row, destination");
        }
        (ShaderBlitterStorage::ShaderBlendMaskBlitter(b), true, false, false) => {
            assert!(b.x == db.min.x && b.y == db.min.y && b.dest_stride == sw && b.tmp.len() == width as usize && b.dest.as_ptr() as usize == dest_ptr && b.dest.len() == 6, "origin, stride, scratch row, destination");
            assert!(b.blend_fn as usize == build_blend_proc::<BlendRowMask>(blend) as usize, "row proc of the requested mode");
        }
        (ShaderBlitterStorage::ShaderBlendBlitter(b), false, _, _) => {
            assert!(b.x == db.min.x && b.y == db.min.y && b.dest_stride == sw && b.tmp.len() == width as usize && b.dest.as_ptr() as usize == dest_ptr && b.dest.len() == 6, "origin, stride, scratch row, destination");
            assert!(b.blend_fn as usize == build_blend_proc::<BlendRow>(blend) as usize, "row proc of the requested mode (SrcOver included)");
        }
        _ => assert!(false, "blitter variant is a function of (mask?, top clip entry has a mask?, blend == SrcOver) only"),
    }
    kani::cover!(width == 3);
}
// @ob id=K.choose_blitter props=C03,C05,C14,C06,C02,C07 kind=complete unwind_complete=yes tier=quick timeout=900 fns=DrawTarget::choose_blitter
// @+ desc="choose_blitter, all 12 combinations of (mask?, clip stack: empty | rect only | path mask on top, SrcOver?): the variant is a function of (mask?, TOP clip entry has a mask?, SrcOver?) only (a mask-less clip entry does not change the blitter); x,y = dest_bounds.min, dest_stride = dest_bounds.width, tmp.len() = surface width, clip = the top entry's mask with clip_stride = surface width, row proc = build_blend_proc(mode); dest_bounds symbolic"
#[kani::proof]
#[kani::unwind(9)]
fn k_choose_blitter() {
    choose_blitter_case(true, 0, true); choose_blitter_case(true, 0, false);
    choose_blitter_case(true, 1, true); choose_blitter_case(true, 1, false);
    choose_blitter_case(true, 2, true); choose_blitter_case(true, 2, false);
    choose_blitter_case(false, 0, true); choose_blitter_case(false, 0, false);
    choose_blitter_case(false, 1, true); choose_blitter_case(false, 1, false);
    choose_blitter_case(false, 2, true); choose_blitter_case(false, 2, false);
}

// ------------------------------------------------------------------ fill / push_clip as drivers (C01 #11, C10 #3)
pub static mut DRV: [u8; 8] = [0; 8];
pub static mut DRV_N: usize = 0;
fn drv_push(k: u8) { unsafe { if DRV_N < 8 { DRV[DRV_N] = k; } DRV_N += 1; } }
pub static mut DRV_BOUNDS: [i32; 4] = [0; 4];
fn apply_path_rec<Backing: AsRef<[u32]> + AsMut<[u32]>>(_dt: &mut DrawTarget<Backing>, _path: &Path) { drv_push(1); }
fn get_bounds_rec(_r: &Rasterizer) -> IntRect { drv_push(2); unsafe { intrect(DRV_BOUNDS[0], DRV_BOUNDS[1], DRV_BOUNDS[2], DRV_BOUNDS[3]) } }
fn rasterize_rec(_r: &mut Rasterizer, _b: &mut dyn crate::blitter::RasterBlitter, w: Winding) { drv_push(if w == Winding::EvenOdd { 3 } else { 13 }); }
fn reset_rec(_r: &mut Rasterizer) { drv_push(5); }
fn composite_drv<Backing: AsRef<[u32]> + AsMut<[u32]>>(dt: &mut DrawTarget<Backing>, src: &Source, mask: Option<&[u8]>, mask_rect: IntRect, rect: IntRect, blend: BlendMode, alpha: f32) {
    drv_push(4);
    composite_rec(dt, src, mask, mask_rect, rect, blend, alpha);
}

// @ob id=K.fill_driver props=C01,C10,C02 kind=complete unwind_complete=yes tier=quick timeout=600 fns=DrawTarget::fill
// @+ desc="fill(): apply_path, then (iff the rasteriser bounds have positive width and height) a mask of exactly bounds.width*bounds.height+1 bytes (supersampling blitter for AntialiasMode::Gray, aliased blitter for None, placed at the bounds' origin) is rasterised with the PATH's winding rule and composited with mask rect = shape rect = the bounds, the caller's blend mode and alpha; the rasteriser is reset exactly once, last, on every path (empty bounds included) -- no residue; bounds symbolic in the surface box; callees replaced by recorders"
#[kani::proof]
#[kani::unwind(10)]
#[kani::stub(DrawTarget::apply_path, apply_path_rec)]
#[kani::stub(Rasterizer::get_bounds, get_bounds_rec)]
#[kani::stub(Rasterizer::rasterize, rasterize_rec)]
#[kani::stub(Rasterizer::reset, reset_rec)]
#[kani::stub(DrawTarget::composite, composite_drv)]
#[kani::stub(MaskBlitter::new, crate::blitter::verif_kani::mask_blitter_new_rec)]
#[kani::stub(MaskSuperBlitter::new, crate::blitter::verif_kani::super_blitter_new_rec)]
fn k_fill_driver() {
    let mut dt = DrawTarget::new(CW, CH);
    let b: [i32; 4] = kani::any();
    kani::assume(b[0] >= 0 && b[0] <= CW && b[2] >= 0 && b[2] <= CW && b[1] >= 0 && b[1] <= CH && b[3] >= 0 && b[3] <= CH);
    unsafe { DRV_BOUNDS = b; DRV_N = 0; }
    comp_reset();
    let eo: bool = kani::any();
    let aa: bool = kani::any();
    let alpha: f32 = kani::any();
    let path = Path { ops: Vec::new(), winding: if eo { Winding::EvenOdd } else { Winding::NonZero } };
    let src = Source::Solid(SolidSource { r: 1, g: 2, b: 3, a: 255 });
    dt.fill(&path, &src, &DrawOptions { blend_mode: BlendMode::DstOut, alpha, antialias: if aa { AntialiasMode::Gray } else { AntialiasMode::None } });
    let n = unsafe { DRV_N };
    let d = unsafe { DRV };
    let (w, h) = (b[2] - b[0], b[3] - b[1]);
    if w > 0 && h > 0 {
        assert!(n == 5 && d[0] == 1 && d[1] == 2 && d[2] == (if eo { 3 } else { 13 }) && d[3] == 4 && d[4] == 5, "apply_path, get_bounds, rasterize(path winding), composite, reset");
        let c = unsafe { &COMP };
        assert!(c.has_mask && c.mask_len == (w * h) as usize + 1, "mask buffer of bounds.width*bounds.height (+1 slack) bytes");
        assert!(c.mask_rect == intrect(b[0], b[1], b[2], b[3]) && c.rect == c.mask_rect, "mask rect = shape rect = rasteriser bounds");
        assert!(c.blend == BlendMode::DstOut && c.alpha_bits == alpha.to_bits(), "caller's blend mode and alpha");
        let ml = unsafe { crate::blitter::verif_kani::MASK_NEW_LOG };
        assert!(ml.0 == (if aa { 2 } else { 1 }), "antialias Gray -> 4x4 supersampling mask, None -> aliased mask");
        assert!(ml.1 == b[0] && ml.2 == b[1] && ml.3 == w && ml.4 == h, "mask origin and size = rasteriser bounds");
    } else {
        assert!(n == 3 && d[0] == 1 && d[1] == 2 && d[2] == 5, "empty bounds: nothing rasterised or composited, rasteriser still reset");
    }
    kani::cover!(w == 2 && h == 1 && !aa);
    kani::cover!(w <= 0);
}

use crate::blitter::verif_kani::{super_blitter_sym, COV};
fn push_clip_driver(with_clip: u8) {
    let mut dt = wf_target_sym(if with_clip == 3 { 2 } else { with_clip });
    if with_clip == 3 {
        // a second path clip on top: the entry that counts is the TOP one
        let r = dt.clip_stack[0].rect;
        dt.clip_stack.push(Clip { rect: r, mask: Some(any_mask_bytes()) });
    }
    let old_bounds = dt.clip_bounds();
    let old_mask: Option<Vec<u8>> = if with_clip >= 2 { dt.clip_stack.last().unwrap().mask.clone() } else { None };
    let cov: [u8; 7] = kani::any();
    unsafe { DRV_N = 0; COV = cov; }
    let path = Path { ops: Vec::new(), winding: Winding::EvenOdd };
    dt.push_clip(&path);
    let n = unsafe { DRV_N };
    let d = unsafe { DRV };
    assert!(n == 3 && d[0] == 1 && d[1] == 3 && d[2] == 5, "apply_path, rasterize(path winding), reset last");
    assert!(dt.clip_stack.len() == (if with_clip == 3 { 3 } else if with_clip > 0 { 2 } else { 1 }), "one entry pushed");
    let top = dt.clip_stack.last().unwrap();
    assert!(top.rect == old_bounds, "clip bounds kept");
    match &top.mask {
        Some(m) => {
            assert!(m.len() == (CW * CH) as usize + 1, "full-surface coverage mask");
            let mut i = 0;
            while i < (CW * CH) as usize {
                let exp = match &old_mask { Some(o) => muldiv255(cov[i] as u32, o[i] as u32) as u8, None => cov[i] };
                assert!(m[i] == exp, "coverage = rasterised coverage x coverage of the clip paths below (muldiv255)");
                i += 1;
            }
        }
        None => assert!(false, "path clip entry carries a mask"),
    }
    kani::cover!(true);
}
// @ob id=K.push_clip_driver_0 props=C05,C10 kind=bounded:surface=3x2 tier=quick timeout=600 fns=DrawTarget::push_clip
// @+ desc="push_clip(path) on an empty clip stack: the new entry keeps the current clip bounds (the surface when empty) and holds exactly the rasterised full-surface coverage (width*height+1 bytes, symbolic here: MaskSuperBlitter::new returns symbolic contents, rasterize is a recorder); the rasteriser is reset last"
#[kani::proof]
#[kani::unwind(10)]
#[kani::stub(DrawTarget::apply_path, apply_path_rec)]
#[kani::stub(Rasterizer::rasterize, rasterize_rec)]
#[kani::stub(Rasterizer::reset, reset_rec)]
#[kani::stub(MaskSuperBlitter::new, super_blitter_sym)]
fn k_push_clip_driver_0() { push_clip_driver(0); }
// @ob id=K.push_clip_driver_1 props=C05,C10 kind=bounded:surface=3x2 tier=quick timeout=600 fns=DrawTarget::push_clip
// @+ desc="push_clip(path) on top of a rectangular clip: bounds kept, mask = rasterised coverage, reset last"
#[kani::proof]
#[kani::unwind(10)]
#[kani::stub(DrawTarget::apply_path, apply_path_rec)]
#[kani::stub(Rasterizer::rasterize, rasterize_rec)]
#[kani::stub(Rasterizer::reset, reset_rec)]
#[kani::stub(MaskSuperBlitter::new, super_blitter_sym)]
fn k_push_clip_driver_1() { push_clip_driver(1); }
// @ob id=K.push_clip_driver_2 props=C05,C10 kind=bounded:surface=3x2 tier=quick timeout=600 fns=DrawTarget::push_clip
// @+ desc="push_clip(path) on top of a path clip: the new mask is the byte-wise muldiv255 product of the rasterised coverage and the previous entry's mask (so the top entry is the product of every pushed path), lower entry unchanged, reset last"
#[kani::proof]
#[kani::unwind(10)]
#[kani::stub(DrawTarget::apply_path, apply_path_rec)]
#[kani::stub(Rasterizer::rasterize, rasterize_rec)]
#[kani::stub(Rasterizer::reset, reset_rec)]
#[kani::stub(MaskSuperBlitter::new, super_blitter_sym)]
fn k_push_clip_driver_2() { push_clip_driver(2); }
// @ob id=K.push_clip_driver_3 props=C05 kind=bounded:surface=3x2 tier=quick timeout=900 fns=DrawTarget::push_clip
// @+ desc="push_clip(path) on a stack of TWO path clips: the new mask is the rasterised coverage times the mask of the TOP entry (which already is the product of everything below), not of any other entry; depth-3 nesting keeps every clip in force"
#[kani::proof]
#[kani::unwind(10)]
#[kani::stub(DrawTarget::apply_path, apply_path_rec)]
#[kani::stub(Rasterizer::rasterize, rasterize_rec)]
#[kani::stub(Rasterizer::reset, reset_rec)]
#[kani::stub(MaskSuperBlitter::new, super_blitter_sym)]
fn k_push_clip_driver_3() { push_clip_driver(3); }

// ------------------------------------------------------------------ surface to surface (C15)
pub static mut CS_LOG: [(usize, usize, usize, usize); 4] = [(0, 0, 0, 0); 4]; // src offset (words), src len, dst offset (words), dst len
pub static mut CS_N: usize = 0;
pub static mut CS_BASE: (usize, usize) = (0, 0);
fn cs_rec(src: &[u32], dst: &mut [u32]) {
    unsafe {
        if CS_N < 4 { CS_LOG[CS_N] = ((src.as_ptr() as usize - CS_BASE.0) / 4, src.len(), (dst.as_ptr() as usize - CS_BASE.1) / 4, dst.len()); }
        CS_N += 1;
    }
}
fn composite_surface_contract(dw: i32, dh: i32, sw: i32, sh: i32) {
    let mut d = DrawTarget::new(dw, dh);
    let s = DrawTarget::new(sw, sh);
    let src_rect = any_rect(-1000, 1000);
    let px: i32 = kani::any();
    let py: i32 = kani::any();
    kani::assume(px >= -1000 && px <= 1000 && py >= -1000 && py <= 1000);
    unsafe { CS_N = 0; CS_BASE = (s.buf.as_ptr() as usize, d.buf.as_ptr() as usize); }
    // transform / clip / layers are ignored: give them arbitrary values
    d.transform = Transform::new(2., 0., 0., 2., 5., 5.);
    d.composite_surface(&s, src_rect, IntPoint::new(px, py), |a: &[u32], b: &mut [u32]| cs_rec(a, b));
    // reference: source pixel p lands on p + off, off = dst - src_rect.min
    let (ox, oy) = (px - src_rect.min.x, py - src_rect.min.y);
    let sr = isect(src_rect, intrect(0, 0, sw, sh));
    let dr = isect(intrect(0, 0, dw, dh), intrect(sr.min.x + ox, sr.min.y + oy, sr.max.x + ox, sr.max.y + oy));
    let n = unsafe { CS_N };
    if sr.min.x >= sr.max.x || sr.min.y >= sr.max.y || dr.min.x >= dr.max.x || dr.min.y >= dr.max.y {
        assert!(n == 0, "empty, inverted or disjoint rectangles: nothing is copied");
    } else {
        assert!(n == (dr.max.y - dr.min.y) as usize, "one row call per destination row of the block");
        let mut k = 0;
        while k < 4 {
            if k < n {
                let (so, sl, dof, dl) = unsafe { CS_LOG[k] };
                let y = dr.min.y + k as i32;
                assert!(sl == (dr.max.x - dr.min.x) as usize && dl == sl, "row slices have the block's width");
                assert!(dof == (y * dw + dr.min.x) as usize, "destination pixel dst + (i, j)");
                assert!(so == ((y - oy) * sw + (dr.min.x - ox)) as usize, "source pixel src_rect.min + (i, j)");
            }
            k += 1;
        }
    }
    kani::cover!(n == 2 && src_rect.min.x == 1 || dw == 0);
    kani::cover!(n == 0);
}
// @ob id=K.composite_surface_32 props=C15,C07,C11 kind=bounded:dst=3x2,src=2x3 tier=quick timeout=900 fns=DrawTarget::composite_surface
// @+ desc="composite_surface, destination 3x2, source 2x3, src_rect and dst symbolic in ±1000 (inside, overlapping, outside, empty, inverted): the row callback is called once per destination row of the block with equal-length slices pairing source pixel src_rect.min+(i,j) (limited to the source surface) with destination pixel dst+(i,j); pixels that would fall outside the destination are skipped; no other slice is handed out; no slice is out of range; transform ignored"
#[kani::proof]
#[kani::unwind(14)]
fn k_composite_surface_32() { composite_surface_contract(3, 2, 2, 3); }
// @ob id=K.composite_surface_zero props=C15,C07 kind=bounded:dst=0x2,src=2x0 tier=quick timeout=900 fns=DrawTarget::composite_surface
// @+ desc="composite_surface with zero-sized destination / source: never a call, never a panic"
#[kani::proof]
#[kani::unwind(14)]
fn k_composite_surface_zero() { composite_surface_contract(0, 2, 2, 0); }

// ------------------------------------------------------------------ pixel layout, byte views, constructors (C19)
// @ob id=K.byte_views props=C19 kind=bounded:2-words tier=quick timeout=600 fns=DrawTarget::get_data_u8,DrawTarget::get_data_u8_mut,DrawTarget::get_data,DrawTarget::get_data_mut
// @+ desc="get_data_u8 / get_data_u8_mut expose the same memory as the u32 words: length 4*w*h, byte 4k+j == (word_k >> 8j) & 0xff on the little-endian target (B,G,R,A), a write through either view is visible through the other; no out-of-bounds or misaligned access in the unsafe blocks (CBMC pointer checks); the cast is length independent, the 2-word bound only sizes the buffer"
#[kani::proof]
#[kani::unwind(10)]
fn k_byte_views() {
    let mut dt = DrawTarget::new(2, 1);
    let w: [u32; 2] = kani::any();
    dt.get_data_mut().copy_from_slice(&w);
    {
        let b = dt.get_data_u8();
        assert!(b.len() == 8, "4 bytes per pixel");
        let mut k = 0;
        while k < 8 { assert!(b[k] as u32 == (w[k / 4] >> (8 * (k % 4))) & 0xff, "bytes are B,G,R,A of each word"); k += 1; }
    }
    let i: usize = kani::any();
    let v: u8 = kani::any();
    kani::assume(i < 8);
    dt.get_data_u8_mut()[i] = v;
    let d = dt.get_data();
    let exp = (w[i / 4] & !(0xffu32 << (8 * (i % 4)))) | ((v as u32) << (8 * (i % 4)));
    assert!(d[i / 4] == exp && d[1 - i / 4] == w[1 - i / 4], "a byte write is visible through the word view and touches nothing else");
    dt.get_data_mut()[1] = 0x11223344;
    assert!(dt.get_data_u8()[4] == 0x44 && dt.get_data_u8()[7] == 0x11, "a word write is visible through the byte view");
    kani::cover!(i == 7);
}

// @ob id=K.ctor_roundtrip props=C19,C07 kind=bounded:2x2 tier=quick timeout=600 fns=DrawTarget::new,DrawTarget::from_vec,DrawTarget::from_backing,DrawTarget::into_vec,DrawTarget::into_inner
// @+ desc="constructors and destructors round-trip the buffer: new() is all zero words of length w*h; from_vec pads with 0 / truncates to w*h and keeps the leading words; from_backing keeps the given buffer (same contents, same length); into_vec / into_inner return it unchanged; zero-sized surfaces are fine"
#[kani::proof]
#[kani::unwind(12)]
fn k_ctor_roundtrip() {
    let v: [u32; 4] = kani::any();
    let dt = DrawTarget::new(2, 2);
    assert!(dt.get_data().len() == 4 && dt.get_data()[0] == 0 && dt.get_data()[3] == 0, "new: zeroed w*h words");
    let dt = DrawTarget::from_vec(2, 2, vec![v[0], v[1]]);
    assert!(dt.get_data().len() == 4 && dt.get_data()[0] == v[0] && dt.get_data()[1] == v[1] && dt.get_data()[2] == 0 && dt.get_data()[3] == 0, "from_vec pads with zeros");
    let out = dt.into_vec();
    assert!(out.len() == 4 && out[1] == v[1], "into_vec returns the buffer");
    let dt = DrawTarget::from_vec(1, 2, vec![v[0], v[1], v[2]]);
    assert!(dt.get_data().len() == 2 && dt.get_data()[1] == v[1], "from_vec truncates to w*h");
    let dt = DrawTarget::from_backing(2, 2, vec![v[0], v[1], v[2], v[3]]);
    assert!(dt.width() == 2 && dt.height() == 2 && dt.get_data()[2] == v[2], "from_backing keeps the buffer");
    let b = dt.into_inner();
    assert!(b.len() == 4 && b[0] == v[0] && b[1] == v[1] && b[2] == v[2] && b[3] == v[3], "into_inner returns the same words");
    let z = DrawTarget::new(0, 0);
    assert!(z.get_data().len() == 0 && z.get_data_u8().len() == 0, "zero-sized surface");
    kani::cover!(true);
}

// ------------------------------------------------------------------ current transform (C11 #1)
// @ob id=K.apply_path_transform props=C11,C08 kind=bounded:ops=3 tier=quick timeout=1200 fns=DrawTarget::apply_path,Path::transform
// @+ desc="filling under a current transform T hands the rasteriser the same edges as filling Path::transform(T) of the path under the identity: for every sequence of 3 ops over {MoveTo, LineTo, Close}, EVERY f32 coordinate and EVERY affine T (transform_point as an uninterpreted function carrying only the identity law, proved in K.transform_point_identity) the two add_edge sequences are equal; every path point goes through the current transform exactly once"
#[kani::proof]
#[kani::unwind(16)]
#[kani::stub(Rasterizer::add_edge, add_edge_rec)]
#[kani::stub(DrawTarget::quad_to, quad_to_rec)]
#[kani::stub(DrawTarget::cubic_to, cubic_to_rec)]
#[kani::stub(euclid::Transform2D::transform_point, transform_point_uf)]
fn k_apply_path_transform() {
    let m: [f32; 6] = kani::any();
    let t = Transform::new(m[0], m[1], m[2], m[3], m[4], m[5]);
    let v: [f32; 6] = kani::any();
    let k: [u8; 3] = kani::any();
    kani::assume(k[0] <= 2 && k[1] <= 2 && k[2] <= 2);
    let mk = |i: usize| match k[i] { 0 => PathOp::MoveTo(Point::new(v[2 * i], v[2 * i + 1])), 1 => PathOp::LineTo(Point::new(v[2 * i], v[2 * i + 1])), _ => PathOp::Close };
    let path = Path { ops: vec![mk(0), mk(1), mk(2)], winding: Winding::NonZero };
    uf_tp_reset();
    let mut a = DrawTarget::new(CW, CH);
    a.transform = t;
    edges_reset();
    a.apply_path(&path);
    let (e0, n0) = edges_snapshot();
    let pre = path.clone().transform(&t);
    let mut b = DrawTarget::new(CW, CH);
    edges_reset();
    b.apply_path(&pre);
    let (e1, n1) = edges_snapshot();
    assert!(n0 == n1, "same number of edges");
    let mut i = 0;
    while i < 5 {
        if i < n0 {
            assert!(e0[i].sx.to_bits() == e1[i].sx.to_bits() && e0[i].sy.to_bits() == e1[i].sy.to_bits() && e0[i].ex.to_bits() == e1[i].ex.to_bits() && e0[i].ey.to_bits() == e1[i].ey.to_bits() && e0[i].curve == e1[i].curve,
                    "fill under T == fill of Path::transform(T) under the identity (same edges)");
        }
        i += 1;
    }
    kani::cover!(n0 == 3);
}

// ------------------------------------------------------------------ quads -> monotonic curve edges (C08 #2)
// @ob id=K.add_quad props=C08,C07 kind=complete tier=quick timeout=1200 fns=DrawTarget::add_quad,DrawTarget::quad_to
// @+ desc="add_quad for finite control points in ±4000, the NON-monotonic case (the monotonic one is K.add_quad_mono): every curve edge handed to the rasteriser is monotonic in y (control y between the end points' y); a quad that is already monotonic is passed through bit for bit; a non-monotonic quad is either chopped at its y-extremum into two halves that share the split point, keep the original end points bit for bit and have their control points level with the split point, or (no usable split parameter) keeps its end points and control x and has its control y snapped to the NEARER end point's y -- the control point never moves further than needed; no debug assertion fires; chop_quad_at and valid_unit_divide are replaced by their contracts (K.chop_quad_at, K.valid_unit_divide): add_quad is checked against its callees' contracts, for either verdict of the divide, and must establish 0 < t < 1"
/// chop_quad_at replaced by its contract (proved on the real code in K.chop_quad_at): end points preserved bit for bit,
/// the three inner points arbitrary
fn chop_quad_at_contract(src: &[Point; 3], dst: &mut [Point; 5], t: f32) {
    assert!(t > 0. && t < 1., "chop_quad_at precondition: 0 < t < 1");
    dst[0] = src[0];
    dst[1] = Point::new(kani::any(), kani::any());
    dst[2] = Point::new(kani::any(), kani::any());
    dst[3] = Point::new(kani::any(), kani::any());
    dst[4] = src[2];
    kani::assume(dst[1].x.is_finite() && dst[1].y.is_finite() && dst[2].x.is_finite() && dst[2].y.is_finite() && dst[3].x.is_finite() && dst[3].y.is_finite());
}
/// valid_unit_divide replaced by its contract (proved on the real code in K.valid_unit_divide): an arbitrary verdict;
/// true comes with 0 < *ratio < 1, false leaves *ratio untouched
fn valid_unit_divide_contract(_numer: f32, _denom: f32, ratio: &mut f32) -> bool {
    if kani::any() {
        let r: f32 = kani::any();
        kani::assume(r > 0. && r < 1.);
        *ratio = r;
        true
    } else { false }
}
#[kani::proof]
#[kani::unwind(10)]
#[kani::stub(Rasterizer::add_edge, add_edge_rec)]
#[kani::stub(crate::geom::chop_quad_at, chop_quad_at_contract)]
#[kani::stub(crate::geom::valid_unit_divide, valid_unit_divide_contract)]
fn k_add_quad() { add_quad_contract(false); }
// @ob id=K.add_quad_mono props=C08,C07 kind=complete tier=quick timeout=1200 fns=DrawTarget::add_quad
// @+ desc="add_quad, the already-monotonic case (a<b<=c or a>b>=c): exactly one curve edge with the three points bit for bit"
#[kani::proof]
#[kani::unwind(10)]
#[kani::stub(Rasterizer::add_edge, add_edge_rec)]
#[kani::stub(crate::geom::chop_quad_at, chop_quad_at_contract)]
fn k_add_quad_mono() { add_quad_contract(true); }
fn add_quad_contract(mono_case: bool) {
    let v: [f32; 6] = kani::any();
    let mut i = 0;
    while i < 6 { kani::assume(v[i].is_finite() && v[i] >= -4000. && v[i] <= 4000.); i += 1; }
    let curve = [Point::new(v[0], v[1]), Point::new(v[2], v[3]), Point::new(v[4], v[5])];
    let (a, b, c) = (v[1], v[3], v[5]);
    kani::assume(((a < b && b <= c) || (a > b && b >= c)) == mono_case);
    let mut dt = DrawTarget::new(CW, CH);
    edges_reset();
    dt.add_quad(curve);
    let (e, n) = edges_snapshot();
    let bits = |x: f32| x.to_bits();
    let between = |lo: f32, m: f32, hi: f32| (lo <= m && m <= hi) || (hi <= m && m <= lo);
    assert!(n == 1 || n == 2, "one edge, or two for a chopped quad");
    let mono_in = (a < b && b <= c) || (a > b && b >= c);
    if n == 1 {
        assert!(e[0].curve && bits(e[0].sx) == bits(v[0]) && bits(e[0].sy) == bits(v[1]) && bits(e[0].ex) == bits(v[4]) && bits(e[0].ey) == bits(v[5]) && bits(e[0].cx) == bits(v[2]), "end points and control x preserved");
        assert!(between(a, e[0].cy, c), "edge monotonic in y");
        if mono_in { assert!(bits(e[0].cy) == bits(b), "monotonic quad passed through unchanged"); }
        else { assert!((e[0].cy == a || e[0].cy == c) && (e[0].cy - b).abs() <= (a - b).abs() && (e[0].cy - b).abs() <= (c - b).abs(), "control y snapped to the nearer end point"); }
    } else {
        assert!(!mono_in, "only non-monotonic quads are chopped");
        assert!(e[0].curve && e[1].curve, "curve edges");
        assert!(bits(e[0].sx) == bits(v[0]) && bits(e[0].sy) == bits(v[1]) && bits(e[1].ex) == bits(v[4]) && bits(e[1].ey) == bits(v[5]), "original end points preserved");
        assert!(bits(e[0].ex) == bits(e[1].sx) && bits(e[0].ey) == bits(e[1].sy), "halves share the split point");
        assert!(e[0].cy == e[0].ey && e[1].cy == e[1].sy, "control points level with the split point: each half monotonic");
    }
    kani::cover!(mono_case || n == 2);
    kani::cover!(mono_case || (n == 1 && !mono_in));
    kani::cover!(!mono_case || (n == 1 && mono_in));
}

// ------------------------------------------------------------------ composite at pixel level through the real blitters (C02, C03, C05, C06)
// Geometry is concrete (trip counts constant), every pixel, coverage byte and clip byte is symbolic, the kernels are arbitrary
// functions: the whole chain composite -> choose_blitter -> blit_span -> row proc is compared with the per-pixel formula.
pub static mut UF_OVER_IN: Uf = Uf::new();
pub static mut UF_OVER_IN_IN: Uf = Uf::new();
pub fn over_in_uf2(src: u32, dst: u32, alpha: u32) -> u32 { unsafe { UF_OVER_IN.call([src, dst, alpha, 0]) } }
pub fn over_in_in_uf2(src: u32, dst: u32, mask: u32, clip: u32) -> u32 { unsafe { UF_OVER_IN_IN.call([src, dst, mask, clip]) } }

fn composite_pixels(clip_kind: u8, with_layer: bool, srcover: bool) {
    let mut dt = DrawTarget::new(CW, CH);
    let surf0: [u32; 6] = kani::any();
    dt.buf.copy_from_slice(&surf0);
    let clipmask: [u8; 7] = kani::any();
    let crect = intrect(0, 0, 2, 2);
    if clip_kind == 1 { dt.clip_stack.push(Clip { rect: crect, mask: None }); }
    if clip_kind == 2 { dt.clip_stack.push(Clip { rect: crect, mask: Some(clipmask.to_vec()) }); }
    let lrect = intrect(1, 0, 3, 2);
    let lay0: [u32; 4] = kani::any();
    if with_layer { dt.layer_stack.push(Layer { buf: lay0.to_vec(), opacity: 1., rect: lrect, blend: BlendMode::SrcOver }); }
    let mask: [u8; 6] = kani::any();
    let color = SolidSource { r: 10, g: 20, b: 30, a: 200 };
    let src = Source::Solid(color);
    let rect = intrect(1, 0, 3, 2);
    uf_reset();
    unsafe { UF_OVER_IN.n = 0; UF_OVER_IN_IN.n = 0; }
    dt.composite(&src, Some(&mask[..]), intrect(0, 0, CW, CH), rect, if srcover { BlendMode::SrcOver } else { BlendMode::Multiply }, 1.);
    let s = alpha_mul(color.to_u32(), 256);
    // region = rect ∩ clip ∩ destination
    let (rx0, rx1) = (1, if clip_kind > 0 { 2 } else { 3 });
    let mut y = 0;
    while y < 2 {
        let mut x = 0;
        while x < 3 {
            let m = mask[(y * 3 + x) as usize];
            let c = clipmask[(y * 3 + x) as usize];
            let inside = x >= rx0 && x < rx1;
            let in_layer = x >= 1;
            let d0 = if with_layer { if in_layer { lay0[(y * 2 + x - 1) as usize] } else { 0 } } else { surf0[(y * 3 + x) as usize] };
            let exp = if !inside { d0 }
                else if clip_kind == 2 {
                    if srcover { if m != 0 && c != 0 { over_in_in(s, d0, m as u32, c as u32) } else { d0 } }
                    else { alpha_lerp(d0, <blend::Multiply as blend::Blend>::blend(s, d0), m as u32, c as u32) }
                } else if srcover { if m != 0 { over_in(s, d0, m as u32) } else { d0 } }
                else if m != 0 { lerp(d0, <blend::Multiply as blend::Blend>::blend(s, d0), alpha_to_alpha256(m as u32)) } else { d0 };
            if with_layer {
                if in_layer { assert!(dt.layer_stack[0].buf[(y * 2 + x - 1) as usize] == exp, "layer pixel = per-pixel formula (own inputs only)"); }
                assert!(dt.buf[(y * 3 + x) as usize] == surf0[(y * 3 + x) as usize], "surface beneath the layer untouched");
            } else {
                assert!(dt.buf[(y * 3 + x) as usize] == exp, "surface pixel = per-pixel formula (own inputs only)");
            }
            x += 1;
        }
        y += 1;
    }
    kani::cover!(mask[1] != 0 && clipmask[1] != 0);
}
macro_rules! composite_pixels_harness { ($name:ident, $ck:expr, $layer:expr, $so:expr) => {
    #[kani::proof]
    #[kani::unwind(12)]
    #[kani::stub(sw_composite::over_in, over_in_uf2)]
    #[kani::stub(sw_composite::over_in_in, over_in_in_uf2)]
    #[kani::stub(sw_composite::lerp, lerp_uf)]
    #[kani::stub(sw_composite::alpha_lerp, alpha_lerp_uf)]
    #[kani::stub(sw_composite::blend::Multiply::blend, fn_blend)]
    fn $name() { composite_pixels($ck, $layer, $so); }
} }
// @ob id=K.composite_pixels_plain props=C02,C03 kind=bounded:surface=3x2,concrete-geometry tier=quick timeout=900 fns=DrawTarget::composite,DrawTarget::choose_blitter,ShaderMaskBlitter::blit_span
// @+ desc="pixel level, real blitters, SrcOver, no clip, no layer: every surface pixel (symbolic contents and coverage) equals over_in(src, prev, coverage) inside rect ∩ surface when coverage != 0 and is bit-identical otherwise; kernels arbitrary functions"
composite_pixels_harness!(k_composite_pixels_plain, 0, false, true);

// ------------------------------------------------------------------ degenerate stroke / dash parameters (C07 #7)
// @ob id=K.stroke_dash_guards props=C07 kind=complete unwind_complete=yes tier=quick timeout=600 fns=stroke_to_path,dash_path
// @+ desc="degenerate stroke parameters are harmless: stroke_to_path returns the empty path for every width <= 0 (any style, before touching the path); dash_path returns the empty path, without reading dash_array[0], for every dash array of 0..3 entries whose total is not > 0 (zeros, negative sums, NaN) and any dash offset (NaN, infinite included)"
#[kani::proof]
#[kani::unwind(6)]
fn k_stroke_dash_guards() {
    // the guards sit before any use of the path, so an empty path keeps the (infeasible) rest of the functions small
    let path = Path { ops: Vec::new(), winding: Winding::NonZero };
    let w: f32 = kani::any();
    kani::assume(w <= 0.);
    let style = StrokeStyle { width: w, cap: LineCap::Round, join: LineJoin::Miter, miter_limit: kani::any(), dash_array: Vec::new(), dash_offset: kani::any() };
    let s = stroke_to_path(&path, &style);
    assert!(s.ops.len() == 0, "non-positive width strokes nothing");
    let d: [f32; 3] = kani::any();
    let n: usize = kani::any();
    kani::assume(n <= 3);
    let mut total = 0f32;
    let mut i = 0;
    while i < 3 { if i < n { total += d[i]; } i += 1; }
    if n % 2 == 1 { total *= 2.; }
    kani::assume(!(total > 0.));
    let off: f32 = kani::any();
    let r = dash_path(&path, &d[..n], off);
    assert!(r.ops.len() == 0, "a dash array whose total is not positive disables the stroke");
    kani::cover!(n == 0);
    kani::cover!(n == 2 && total.is_nan());
    kani::cover!(n == 3 && total < 0.);
}

// ------------------------------------------------------------------ stroke() as a driver (C07 #7, C02 #6, C11)
pub static mut SD: [u8; 6] = [0; 6];
pub static mut SD_N: usize = 0;
pub static mut SD_TOL: u32 = 0;
pub static mut SD_DASH: (usize, u32) = (0, 0);
fn sd_push(k: u8) { unsafe { if SD_N < 6 { SD[SD_N] = k; } SD_N += 1; } }
fn scaled_tolerance_rec(x: f32, _t: &Transform) -> f32 { sd_push(1); unsafe { SD_TOL = x.to_bits(); } 0.25 }
fn flatten_rec(p: &Path, tolerance: f32) -> Path { sd_push(2); assert!(tolerance == 0.25, "flatten uses the transform-scaled tolerance"); Path { ops: vec![PathOp::MoveTo(Point::new(2., 2.))], winding: p.winding } }
fn dash_path_rec(p: &Path, dash_array: &[f32], dash_offset: f32) -> Path {
    sd_push(3);
    unsafe { SD_DASH = (dash_array.len(), dash_offset.to_bits()); }
    assert!(p.ops.len() == 1 && matches!(p.ops[0], PathOp::MoveTo(_)), "dashing works on the flattened path");
    Path { ops: vec![PathOp::MoveTo(Point::new(3., 3.)), PathOp::Close], winding: Winding::NonZero }
}
fn stroke_to_path_rec(p: &Path, _style: &StrokeStyle) -> Path {
    sd_push(4);
    unsafe { SD_DASH.0 = SD_DASH.0 * 10 + p.ops.len(); }
    Path { ops: vec![PathOp::MoveTo(Point::new(4., 4.)), PathOp::Close, PathOp::Close], winding: Winding::NonZero }
}
fn fill_rec2<Backing: AsRef<[u32]> + AsMut<[u32]>>(dt: &mut DrawTarget<Backing>, path: &Path, src: &Source, options: &DrawOptions) {
    sd_push(5);
    fill_rec(dt, path, src, options);
}

// @ob id=K.stroke_driver props=C07,C02,C11 kind=complete unwind_complete=yes tier=quick timeout=600 fns=DrawTarget::stroke
// @+ desc="stroke(): flatten with the transform-scaled tolerance (base 0.1), then dash_path if and only if the dash array is non-empty (an empty dash array never reaches dash_path) with the style's array and offset, then stroke_to_path on that result, then exactly one fill of the stroked outline with the caller's source and options; callees replaced by recorders"
#[kani::proof]
#[kani::unwind(10)]
#[kani::stub(scaled_tolerance, scaled_tolerance_rec)]
#[kani::stub(crate::path_builder::Path::flatten, flatten_rec)]
#[kani::stub(crate::dash::dash_path, dash_path_rec)]
#[kani::stub(crate::stroke::stroke_to_path, stroke_to_path_rec)]
#[kani::stub(DrawTarget::fill, fill_rec2)]
fn k_stroke_driver() {
    let mut dt = DrawTarget::new(CW, CH);
    let dashed: bool = kani::any();
    let off: f32 = kani::any();
    let style = StrokeStyle { width: kani::any(), cap: LineCap::Butt, join: LineJoin::Bevel, miter_limit: kani::any(),
                              dash_array: if dashed { vec![1.0, 2.0] } else { Vec::new() }, dash_offset: off };
    let path = Path { ops: vec![PathOp::LineTo(Point::new(1., 1.))], winding: Winding::EvenOdd };
    let alpha: f32 = kani::any();
    let opts = DrawOptions { blend_mode: BlendMode::Lighten, alpha, antialias: AntialiasMode::None };
    unsafe { SD_N = 0; SD_DASH = (0, 0); }
    comp_reset();
    dt.stroke(&path, &Source::Solid(SolidSource { r: 9, g: 8, b: 7, a: 255 }), &style, &opts);
    let n = unsafe { SD_N };
    let d = unsafe { SD };
    assert!(unsafe { SD_TOL } == 0.1f32.to_bits(), "base tolerance 0.1, scaled by the transform");
    if dashed {
        assert!(n == 5 && d[0] == 1 && d[1] == 2 && d[2] == 3 && d[3] == 4 && d[4] == 5, "tolerance, flatten, dash, stroke, fill");
        assert!(unsafe { SD_DASH } == (2 * 10 + 2, off.to_bits()), "dash_path gets the style's array and offset; stroke_to_path gets the dashed path");
    } else {
        assert!(n == 4 && d[0] == 1 && d[1] == 2 && d[2] == 4 && d[3] == 5, "no dash array: dash_path is not reached");
        assert!(unsafe { SD_DASH.0 } == 1, "stroke_to_path gets the flattened path");
    }
    let f = unsafe { &FILL };
    assert!(f.n == 1 && f.ops == 3 && f.blend == BlendMode::Lighten && f.alpha_bits == alpha.to_bits() && f.aa == AntialiasMode::None && f.solid == 0xff090807, "one fill of the stroked outline with the caller's source and options");
    kani::cover!(dashed);
    kani::cover!(!dashed);
}

// ------------------------------------------------------------------ draw_image_* as callers of fill_rect (C13 #5, C14 #7)
pub static mut FR: (usize, [u32; 4], u8, [u32; 6], (i32, i32, usize), bool, u32) = (0, [0; 4], 0, [0; 6], (0, 0, 0), false, 0);
fn fill_rect_rec<Backing: AsRef<[u32]> + AsMut<[u32]>>(_dt: &mut DrawTarget<Backing>, x: f32, y: f32, width: f32, height: f32, src: &Source, options: &DrawOptions) {
    unsafe {
        FR.0 += 1;
        FR.1 = [x.to_bits(), y.to_bits(), width.to_bits(), height.to_bits()];
        if let Source::Image(img, ext, filt, xf) = src {
            FR.2 = 1;
            FR.3 = xf_bits(xf);
            FR.4 = (img.width, img.height, img.data.as_ptr() as usize);
            FR.5 = matches!(ext, ExtendMode::Pad) && *filt == FilterMode::Bilinear;
        } else { FR.2 = 0; }
        FR.6 = options.alpha.to_bits();
    }
}
// @ob id=K.draw_image_at props=C13,C14,C02 kind=complete unwind_complete=yes tier=quick timeout=600 fns=DrawTarget::draw_image_at,DrawTarget::draw_image_with_size_at
// @+ desc="draw_image_at(x,y,img) for every finite x,y: exactly one fill_rect(x, y, img.width, img.height) with the same image as a Pad source whose transform is exactly translate(-x,-y) (scale exactly 1), and the caller's options: texel (i,j) therefore lands on pixel (x+i, y+j) and the call equals filling that rectangle with the translated image source"
#[kani::proof]
#[kani::unwind(10)]
#[kani::stub(DrawTarget::fill_rect, fill_rect_rec)]
fn k_draw_image_at() {
    let mut dt = DrawTarget::new(CW, CH);
    let data = [0u32; 6];
    let img = Image { width: 3, height: 2, data: &data };
    let (x, y): (f32, f32) = (kani::any(), kani::any());
    kani::assume(x.is_finite() && y.is_finite());
    let alpha: f32 = kani::any();
    unsafe { FR.0 = 0; }
    dt.draw_image_at(x, y, &img, &DrawOptions { blend_mode: BlendMode::SrcOver, alpha, antialias: AntialiasMode::Gray });
    let fr = unsafe { &FR };
    assert!(fr.0 == 1, "one fill_rect");
    assert!(fr.1[0] == x.to_bits() && fr.1[1] == y.to_bits() && fr.1[2] == 3f32.to_bits() && fr.1[3] == 2f32.to_bits(), "rectangle [x,x+w) x [y,y+h) with the image's size");
    assert!(fr.2 == 1 && fr.4 == (3, 2, data.as_ptr() as usize) && fr.5, "the same image, Pad");
    let t = fr.3;
    assert!(f32::from_bits(t[0]) == 1. && f32::from_bits(t[1]) == 0. && f32::from_bits(t[2]) == 0. && f32::from_bits(t[3]) == 1. && f32::from_bits(t[4]) == -x && f32::from_bits(t[5]) == -y, "source transform = translate(-x,-y), scale exactly 1");
    assert!(fr.6 == alpha.to_bits(), "caller's options");
    kani::cover!(x == 1.5);
}


// ------------------------------------------------------------------ fill_rect general route (C14 #1, C05)
fn fill_rect_general(case: u8) {
    let mut dt = wf_target_sym(if case == 0 { 1 } else if case == 1 { 2 } else { 0 });
    let (mut x, y, w, h) = (1.0f32, 0.0f32, 2.0f32, 1.0f32);
    if case == 2 { dt.transform = Transform::translation(0.5, 0.); }
    if case == 3 { x = 1.25; }
    let alpha: f32 = kani::any();
    comp_reset();
    dt.fill_rect(x, y, w, h, &Source::Solid(SolidSource { r: 1, g: 2, b: 3, a: 255 }), &DrawOptions { blend_mode: BlendMode::Xor, alpha, antialias: AntialiasMode::Gray });
    let f = unsafe { &FILL };
    assert!(unsafe { COMP.n } == 0, "no direct composite: a clip, a transform or a non-integer rectangle must take the general path");
    assert!(f.n == 1 && f.ops == 5 && f.closed, "one fill of a closed rectangle path");
    assert!(f.pts[0] == (x.to_bits(), y.to_bits()) && f.pts[1] == ((x + w).to_bits(), y.to_bits()) && f.pts[2] == ((x + w).to_bits(), (y + h).to_bits()) && f.pts[3] == (x.to_bits(), (y + h).to_bits()), "the rectangle's corners");
    assert!(f.blend == BlendMode::Xor && f.alpha_bits == alpha.to_bits() && f.solid == 0xff010203, "caller's source and options");
    kani::cover!(true);
}
// @ob id=K.fill_rect_general_clip props=C14,C05,C02 kind=bounded:surface=3x2 tier=quick timeout=600 fns=DrawTarget::fill_rect
// @+ desc="fill_rect under a non-empty clip stack (rect clip; path clip) never takes the mask-less fast path: exactly one fill of PathBuilder::rect(x,y,w,h) with the caller's source and options (so clip coverage is honoured)"
#[kani::proof]
#[kani::unwind(10)]
#[kani::stub(DrawTarget::composite, composite_rec)]
#[kani::stub(DrawTarget::fill, fill_rec)]
fn k_fill_rect_general_clip() { fill_rect_general(0); fill_rect_general(1); }
// @ob id=K.fill_rect_general_xf props=C14,C11 kind=bounded:surface=3x2 tier=quick timeout=600 fns=DrawTarget::fill_rect
// @+ desc="fill_rect under a non-identity transform, or with a non-integer rectangle, takes the general path: one fill of PathBuilder::rect(x,y,w,h)"
#[kani::proof]
#[kani::unwind(10)]
#[kani::stub(DrawTarget::composite, composite_rec)]
#[kani::stub(DrawTarget::fill, fill_rec)]
fn k_fill_rect_general_xf() { fill_rect_general(2); fill_rect_general(3); }

// ------------------------------------------------------------------ Kani function contracts on real fns (attrs.toml)
// @ob id=K.contract_to_u32 props=C19,C03 kind=complete tier=quick timeout=300 fns=SolidSource::to_u32
// @+ desc="Kani function contract attached to the real SolidSource::to_u32: result == (A<<24)|(R<<16)|(G<<8)|B, proved by proof_for_contract for every colour"
#[kani::proof_for_contract(SolidSource::to_u32)]
fn k_contract_to_u32() {
    let c = SolidSource { r: kani::any(), g: kani::any(), b: kani::any(), a: kani::any() };
    c.to_u32();
    kani::cover!(true);
}



// ------------------------------------------------------------------ dash offset normalisation (C07 #7)
fn dash_offset_case(arr: &[f32], period: f32) {
    let path = Path { ops: Vec::new(), winding: Winding::NonZero };
    let off: f32 = kani::any();
    // any offset that survives `offset % period` and the negative fix-up: 0 <= offset < period (the % itself is fmod)
    kani::assume(off.is_finite() && off > -period && off < period);
    let r = dash_path(&path, arr, off);
    assert!(r.ops.len() == 0, "an empty path dashes to an empty path");
}
// @ob id=K.dash_offset_loop props=C07 kind=bounded:3-dash-arrays tier=quick timeout=900 fns=dash_path
// @+ desc="dash_path's offset normalisation on dash arrays [5], [4,2,3] and [1,0,2,3] with every finite offset within one period of either sign: the loop that advances the dash state by the offset never indexes outside the dash array (odd-length arrays wrap around: their period is two passes) and terminates within two passes"
#[kani::proof]
#[kani::unwind(10)]
fn k_dash_offset_loop() {
    dash_offset_case(&[5.], 10.);
    dash_offset_case(&[4., 2., 3.], 18.);
    dash_offset_case(&[1., 0., 2., 3.], 6.);
    kani::cover!(true);
}

// ------------------------------------------------------------------ copy / blend wrappers (C15 #2)
pub static mut OIR: (usize, usize, usize, usize, usize, u32) = (0, 0, 0, 0, 0, 0);
fn over_in_row_rec(src: &[u32], dst: &mut [u32], alpha: u32) {
    unsafe { OIR = (OIR.0 + 1, src.as_ptr() as usize, src.len(), dst.as_ptr() as usize, dst.len(), alpha); }
}
// @ob id=K.surface_wrappers props=C15,C07,C11 kind=bounded:2x1-surfaces tier=quick timeout=600 fns=DrawTarget::copy_surface,DrawTarget::blend_surface,DrawTarget::blend_surface_with_alpha
// @+ desc="the three surface-to-surface calls on 2x1 surfaces (concrete pixels, symbolic alpha): copy_surface replaces the destination block with the source block exactly; blend_surface applies the blend mode's formula per pixel (Xor checked against sw_composite::blend::Xor); blend_surface_with_alpha hands the whole row to over_in_row with alpha byte = round(alpha*255) for EVERY f32 alpha (1.0 included: still source-over, never a plain copy); clip stack, layers and transform are neither read nor written. over_in_row (SSE2 intrinsics in the dependency) is replaced by a recorder: assumed to be over_in per pixel"
#[kani::proof]
#[kani::unwind(8)]
#[kani::stub(sw_composite::over_in_row, over_in_row_rec)]
fn k_surface_wrappers() {
    // concrete premultiplied pixels: the per-pixel formulas are the kernels' (proved elsewhere); this contract is about
    // which row function is applied to which block with which parameter
    let s: [u32; 2] = [0x80402010, 0xff102030];
    let d0: [u32; 2] = [0xc0a08060, 0x40101010];
    let mut src = DrawTarget::new(2, 1);
    src.buf.copy_from_slice(&s);
    let mut dst = DrawTarget::new(2, 1);
    dst.transform = Transform::new(3., 0., 0., 3., 1., 1.);
    dst.push_clip_rect(intrect(0, 0, 1, 1));
    let full = intrect(0, 0, 2, 1);
    // copy
    dst.buf.copy_from_slice(&d0);
    dst.copy_surface(&src, full, IntPoint::new(0, 0));
    assert!(dst.buf[0] == s[0] && dst.buf[1] == s[1], "copy replaces (clip ignored)");
    // blend with a mode
    dst.buf.copy_from_slice(&d0);
    dst.blend_surface(&src, full, IntPoint::new(0, 0), BlendMode::Xor);
    assert!(dst.buf[0] == <blend::Xor as blend::Blend>::blend(s[0], d0[0]) && dst.buf[1] == <blend::Xor as blend::Blend>::blend(s[1], d0[1]), "blend_surface applies the mode's formula per pixel");
    // blend with alpha
    let alpha: f32 = kani::any();
    unsafe { OIR.0 = 0; }
    dst.buf.copy_from_slice(&d0);
    dst.blend_surface_with_alpha(&src, full, IntPoint::new(0, 0), alpha);
    let o = unsafe { OIR };
    assert!(o.0 == 1 && o.1 == src.buf.as_ptr() as usize && o.2 == 2 && o.3 == dst.buf.as_ptr() as usize && o.4 == 2, "one source-over row over the whole block");
    let exp: u32 = if alpha.is_nan() || alpha <= 0. { 0 } else if alpha >= 1. { 255 } else { (alpha * 255. + 0.5) as u32 };
    assert!(o.5 == exp, "alpha byte = round(alpha*255), saturating");
    assert!(dst.clip_stack.len() == 1 && dst.layer_stack.len() == 0 && dst.transform.m11 == 3., "clip stack, layers and transform untouched");
    kani::cover!(alpha == 1.0);
    kani::cover!(alpha == 0.5);
}

// @ob id=K.draw_image_with_size props=C13 kind=bounded:3-concrete-sizes tier=quick timeout=600 fns=DrawTarget::draw_image_with_size_at
// @+ desc="draw_image_with_size_at(w,h,x,y,img) for every finite x,y and three target sizes (2x, 1x, 0.5x of a 4x2 image; power-of-two ratios so the float products are exact): one fill_rect(x,y,w,h) with the image as a Pad/Bilinear source whose transform maps the rectangle's corner (x,y) to texel (0,0) and scales by (img.width/w, img.height/h) -- the whole image is stretched over the rectangle"
#[kani::proof]
#[kani::unwind(10)]
#[kani::stub(DrawTarget::fill_rect, fill_rect_rec)]
fn k_draw_image_with_size() {
    let mut dt = DrawTarget::new(CW, CH);
    let data = [0u32; 8];
    let img = Image { width: 4, height: 2, data: &data };
    let (x, y): (f32, f32) = (kani::any(), kani::any());
    kani::assume(x.is_finite() && y.is_finite() && x.abs() <= 4000. && y.abs() <= 4000.);
    let sizes = [(8f32, 4f32), (4., 2.), (2., 1.)];
    let mut k = 0;
    while k < 3 {
        let (w, h) = sizes[k];
        unsafe { FR.0 = 0; }
        dt.draw_image_with_size_at(w, h, x, y, &img, &DrawOptions::new());
        let fr = unsafe { &FR };
        assert!(fr.0 == 1 && fr.1[0] == x.to_bits() && fr.1[1] == y.to_bits() && fr.1[2] == w.to_bits() && fr.1[3] == h.to_bits(), "one fill_rect of the requested rectangle");
        assert!(fr.2 == 1 && fr.4 == (4, 2, data.as_ptr() as usize) && fr.5, "the same image, Pad / Bilinear");
        let (sx, sy) = (4. / w, 2. / h);
        let t = fr.3;
        assert!(f32::from_bits(t[0]) == sx && f32::from_bits(t[1]) == 0. && f32::from_bits(t[2]) == 0. && f32::from_bits(t[3]) == sy, "scale = image size / rectangle size");
        assert!(f32::from_bits(t[4]) == -x * sx && f32::from_bits(t[5]) == -y * sy, "the rectangle's corner maps to texel (0,0)");
        k += 1;
    }
    kani::cover!(x == 3.5);
}
