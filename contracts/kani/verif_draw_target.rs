// Lane K harness module injected as a child of `crate::draw_target` (sees private items).
#![allow(unused_imports, dead_code, static_mut_refs)]
use super::*;
use crate::blitter::*;
use sw_composite::*;

// ------------------------------------------------------------------ uninterpreted functions
// Memo tables give "arbitrary but fixed function" semantics: the first call with given arguments picks an
// arbitrary result, later calls with equal arguments return the same result.
//  * `FnBlend::blend` = arbitrary function of (src, dst): a sound over-approximation of all 28 deterministic
//    blend modes for frame / locality / weighting claims ("for any T: Blend").
//  * `lerp_uf` / `alpha_lerp_uf` replace sw-composite's kernels (kani::stub) in the row-proc harnesses; they are
//    arbitrary functions constrained only by the kernel contracts that are PROVED on the real kernels in
//    verif_blitter.rs (K.alpha_lerp_zero).  This is the modular step: callers see the callee's contract.
pub const UF_CAP: usize = 6;
pub struct Uf { n: usize, tab: [([u32; 4], u32); UF_CAP] }
impl Uf {
    pub const fn new() -> Uf { Uf { n: 0, tab: [([0; 4], 0); UF_CAP] } }
    pub fn call(&mut self, args: [u32; 4]) -> u32 {
        let mut i = 0;
        while i < UF_CAP {
            let t = &self.tab[i].0;
            if i < self.n && t[0] == args[0] && t[1] == args[1] && t[2] == args[2] && t[3] == args[3] { return self.tab[i].1; }
            i += 1;
        }
        assert!(self.n < UF_CAP, "uninterpreted-function table capacity");
        let r: u32 = kani::any();
        self.tab[self.n] = (args, r);
        self.n += 1;
        r
    }
}
pub static mut UF_BLEND: Uf = Uf::new();
pub static mut UF_LERP: Uf = Uf::new();
pub static mut UF_ALERP: Uf = Uf::new();
pub fn uf_reset() { unsafe { UF_BLEND.n = 0; UF_LERP.n = 0; UF_ALERP.n = 0; } }
pub fn fn_blend(src: u32, dst: u32) -> u32 { unsafe { UF_BLEND.call([src, dst, 0, 0]) } }
pub struct FnBlend;
impl blend::Blend for FnBlend {
    fn blend(src: u32, dst: u32) -> u32 { fn_blend(src, dst) }
}
pub fn lerp_uf(a: u32, b: u32, t: u32) -> u32 { unsafe { UF_LERP.call([a, b, t, 0]) } }
pub fn alpha_lerp_uf(src: u32, dst: u32, mask: u32, clip: u32) -> u32 {
    // contract proved on the real kernel: K.alpha_lerp_zero
    if mask == 0 || clip == 0 { return src; }
    unsafe { UF_ALERP.call([src, dst, mask, clip]) }
}

/// A shader that writes arbitrary colours into dest[..count] and nothing else (the Shader contract).
pub struct AnyShader;
impl Shader for AnyShader {
    fn shade_span(&self, _x: i32, _y: i32, dest: &mut [u32], count: usize) {
        assert!(count <= dest.len(), "shade_span precondition: count <= dest.len()");
        let mut i = 0;
        while i < count {
            dest[i] = kani::any();
            i += 1;
        }
    }
}

// ------------------------------------------------------------------ row procs (C02 #3, C03 #3)
// @ob id=K.blend_row_mask props=C02,C03 kind=bounded:len<=3 tier=quick timeout=300 fns=blend_row_mask assumes="lerp replaced by an arbitrary function (no kernel fact needed)"
// @+ desc="blend_row_mask::<T> for any T: touches exactly min(len) leading pixels; pixel i becomes lerp(d_i, T::blend(s_i,d_i), a256(mask_i)); a pixel whose mask byte is 0 is bit-identical afterwards"
#[kani::proof]
#[kani::unwind(8)]
#[kani::stub(sw_composite::lerp, lerp_uf)]
fn k_blend_row_mask() {
    let src: [u32; 3] = kani::any();
    let mask: [u8; 3] = kani::any();
    let old: [u32; 4] = kani::any();
    let mut dst = old;
    let ns: usize = kani::any();
    let nm: usize = kani::any();
    let nd: usize = kani::any();
    kani::assume(ns <= 3 && nm <= 3 && nd <= 4);
    uf_reset();
    blend_row_mask::<FnBlend>(&src[..ns], &mask[..nm], &mut dst[..nd]);
    let n = ns.min(nm).min(nd);
    let mut i = 0;
    while i < 4 {
        if i < n {
            if mask[i] == 0 {
                assert!(dst[i] == old[i], "zero coverage keeps the pixel bit-for-bit");
            } else {
                assert!(dst[i] == lerp(old[i], fn_blend(src[i], old[i]), alpha_to_alpha256(mask[i] as u32)), "pixel = lerp(prev, blend(src,prev), a256(coverage))");
            }
        } else {
            assert!(dst[i] == old[i], "pixels beyond the span are untouched");
        }
        i += 1;
    }
    kani::cover!(n == 3);
    kani::cover!(n == 3 && mask[1] == 0 && mask[2] == 255);
}

// @ob id=K.blend_row_mask_clip props=C02,C03,C05 kind=bounded:len<=3 tier=quick timeout=300 fns=blend_row_mask_clip assumes="alpha_lerp replaced by an arbitrary function satisfying K.alpha_lerp_zero (proved on the real kernel)"
// @+ desc="blend_row_mask_clip::<T> for any T: touches exactly min(len) leading pixels; pixel i becomes alpha_lerp(d_i, T::blend(s_i,d_i), mask_i, clip_i); zero mask or zero clip byte keeps the pixel bit-identical"
#[kani::proof]
#[kani::unwind(8)]
#[kani::stub(sw_composite::alpha_lerp, alpha_lerp_uf)]
fn k_blend_row_mask_clip() {
    let src: [u32; 3] = kani::any();
    let mask: [u8; 3] = kani::any();
    let clip: [u8; 4] = kani::any();
    let old: [u32; 4] = kani::any();
    let mut dst = old;
    let ns: usize = kani::any();
    let nm: usize = kani::any();
    let nc: usize = kani::any();
    let nd: usize = kani::any();
    kani::assume(ns <= 3 && nm <= 3 && nc <= 4 && nd <= 4);
    uf_reset();
    blend_row_mask_clip::<FnBlend>(&src[..ns], &mask[..nm], &clip[..nc], &mut dst[..nd]);
    let n = ns.min(nm).min(nd).min(nc);
    let mut i = 0;
    while i < 4 {
        if i < n {
            if mask[i] == 0 || clip[i] == 0 {
                assert!(dst[i] == old[i], "zero coverage or zero clip coverage keeps the pixel bit-for-bit");
            } else {
                assert!(dst[i] == alpha_lerp(old[i], fn_blend(src[i], old[i]), mask[i] as u32, clip[i] as u32), "pixel = alpha_lerp(prev, blend(src,prev), coverage, clip)");
            }
        } else {
            assert!(dst[i] == old[i], "pixels beyond the span are untouched");
        }
        i += 1;
    }
    kani::cover!(n == 3);
    kani::cover!(n == 3 && mask[1] == 0 && clip[2] == 0);
}

// @ob id=K.blend_row props=C02,C03,C14,C15 kind=bounded:len<=3 tier=quick timeout=300 fns=blend_row
// @+ desc="blend_row::<T> for any T: touches exactly min(src.len, dst.len) leading pixels; pixel i becomes T::blend(s_i, d_i)"
#[kani::proof]
#[kani::unwind(8)]
fn k_blend_row() {
    let src: [u32; 3] = kani::any();
    let old: [u32; 4] = kani::any();
    let mut dst = old;
    let ns: usize = kani::any();
    let nd: usize = kani::any();
    kani::assume(ns <= 3 && nd <= 4);
    uf_reset();
    blend_row::<FnBlend>(&src[..ns], &mut dst[..nd]);
    let n = ns.min(nd);
    let mut i = 0;
    while i < 4 {
        if i < n {
            assert!(dst[i] == fn_blend(src[i], old[i]), "pixel = blend(src, prev)");
        } else {
            assert!(dst[i] == old[i], "pixels beyond the span are untouched");
        }
        i += 1;
    }
    kani::cover!(n == 3);
}

// ------------------------------------------------------------------ span blitters with a row proc (C02 #2, C14 #4)
// The row proc is a plain fn pointer field, so the harness passes a RECORDER as `blend_fn`: it logs the slices it
// is handed and checks them against the row proc's contract ("touches min(len) leading pixels of dst").
pub struct NopShader;
pub static mut SHADE_LOG: (i32, i32, usize, usize, usize) = (0, 0, 0, 0, 0);
impl Shader for NopShader {
    fn shade_span(&self, x: i32, y: i32, dest: &mut [u32], count: usize) {
        assert!(count <= dest.len(), "shade_span precondition: count <= dest.len()");
        unsafe { SHADE_LOG = (x, y, dest.as_ptr() as usize, dest.len(), count); }
    }
}
pub static mut ROW_LOG: (usize, usize, usize, usize, usize, usize, usize, usize, usize) = (0, 0, 0, 0, 0, 0, 0, 0, 0);
pub static mut ROW_CALLS: usize = 0;
fn rec_row(src: &[u32], dst: &mut [u32]) {
    unsafe { ROW_LOG = (src.as_ptr() as usize, src.len(), 0, 0, 0, 0, dst.as_ptr() as usize, dst.len(), 0); ROW_CALLS += 1; }
}
fn rec_row_mask(src: &[u32], mask: &[u8], dst: &mut [u32]) {
    unsafe { ROW_LOG = (src.as_ptr() as usize, src.len(), mask.as_ptr() as usize, mask.len(), 0, 0, dst.as_ptr() as usize, dst.len(), 0); ROW_CALLS += 1; }
}
fn rec_row_mask_clip(src: &[u32], mask: &[u8], clip: &[u8], dst: &mut [u32]) {
    unsafe { ROW_LOG = (src.as_ptr() as usize, src.len(), mask.as_ptr() as usize, mask.len(), clip.as_ptr() as usize, clip.len(), dst.as_ptr() as usize, dst.len(), 0); ROW_CALLS += 1; }
}

pub struct SpanGeom { x: i32, y: i32, stride: i32, dest_len: usize, yy: i32, x1: i32, x2: i32, tmp_len: usize }
/// Precondition of every Blitter::blit_span (what `composite` establishes, see K.composite_*):
/// x1 <= x2, the span lies on row yy of a destination whose origin is (x, y) and whose rows are `stride` long,
/// the row is inside dest, the span is no longer than the scratch row `tmp`.
fn any_span_geom(max_dest: usize, max_tmp: usize) -> SpanGeom {
    let g = SpanGeom { x: kani::any(), y: kani::any(), stride: kani::any(), dest_len: kani::any(),
                       yy: kani::any(), x1: kani::any(), x2: kani::any(), tmp_len: kani::any() };
    kani::assume(g.x >= -1000 && g.x <= 1000 && g.y >= -1000 && g.y <= 1000);
    kani::assume(g.stride >= 0 && g.stride as usize <= max_dest && g.dest_len <= max_dest && g.tmp_len <= max_tmp);
    kani::assume(g.yy >= -2000 && g.yy <= 2000 && g.x1 >= -2000 && g.x1 <= 2000 && g.x2 >= -2000 && g.x2 <= 2000);
    kani::assume(g.yy >= g.y && g.yy - g.y <= max_dest as i32);
    kani::assume(g.x1 >= g.x && g.x1 <= g.x2 && g.x2 - g.x <= g.stride);
    kani::assume(((g.yy - g.y) * g.stride + (g.x2 - g.x)) as usize <= g.dest_len);
    kani::assume((g.x2 - g.x1) as usize <= g.tmp_len);
    g
}

// @ob id=K.blend_blitter_span props=C02,C03,C14 kind=bounded:dest<=12words,tmp<=4 tier=quick timeout=300 fns=ShaderBlendBlitter::blit_span
// @+ desc="mask-less blitter: shades count=x2-x1 pixels at (x1,y) and hands the row proc slices that make it touch exactly count pixels starting at dest[(y-self.y)*stride + x1-self.x] (row proc contract: min(src.len,dst.len) leading pixels); geometry symbolic, loop-free"
#[kani::proof]
fn k_blend_blitter_span() {
    let g = any_span_geom(12, 4);
    let mut dest = [0u32; 12];
    let tmp = vec![0u32; g.tmp_len];
    let tmp_ptr = tmp.as_ptr() as usize;
    let dest_ptr = dest.as_ptr() as usize;
    let shader = NopShader;
    unsafe { ROW_CALLS = 0; }
    let mut b = ShaderBlendBlitter { x: g.x, y: g.y, shader: &shader, tmp, dest: &mut dest[..g.dest_len], dest_stride: g.stride, blend_fn: rec_row };
    b.blit_span(g.yy, g.x1, g.x2, &[]);
    let count = (g.x2 - g.x1) as usize;
    let base = ((g.yy - g.y) * g.stride + g.x1 - g.x) as usize;
    let (sp, sl, _, _, _, _, dp, dl, _) = unsafe { ROW_LOG };
    assert!(unsafe { ROW_CALLS } == 1, "row proc called once");
    assert!(unsafe { SHADE_LOG } == (g.x1, g.yy, tmp_ptr, g.tmp_len, count), "shader asked for count pixels at (x1, y) into tmp");
    assert!(sp == tmp_ptr, "row proc source is the shaded row");
    assert!(dp == dest_ptr + 4 * base, "row proc destination starts at the span's first pixel");
    assert!(sl.min(dl) == count, "row proc touches exactly x2-x1 pixels");
    kani::cover!(count == 1 && g.tmp_len == 4 && g.dest_len == 12);
    kani::cover!(count == 0);
}

// @ob id=K.blend_mask_blitter_span props=C02,C03 kind=bounded:dest<=12words,tmp<=4 tier=quick timeout=300 fns=ShaderBlendMaskBlitter::blit_span
// @+ desc="masked non-SrcOver blitter: row proc gets (tmp, mask, dest[(y-self.y)*stride + x1-self.x ..]) and therefore touches exactly x2-x1 pixels (mask.len()==x2-x1 is composite's guarantee); geometry symbolic, loop-free"
#[kani::proof]
fn k_blend_mask_blitter_span() {
    let g = any_span_geom(12, 4);
    let mut dest = [0u32; 12];
    let tmp = vec![0u32; g.tmp_len];
    let tmp_ptr = tmp.as_ptr() as usize;
    let dest_ptr = dest.as_ptr() as usize;
    let mask = [0u8; 4];
    let count = (g.x2 - g.x1) as usize;
    let shader = NopShader;
    unsafe { ROW_CALLS = 0; }
    let mut b = ShaderBlendMaskBlitter { x: g.x, y: g.y, shader: &shader, tmp, dest: &mut dest[..g.dest_len], dest_stride: g.stride, blend_fn: rec_row_mask };
    b.blit_span(g.yy, g.x1, g.x2, &mask[..count]);
    let base = ((g.yy - g.y) * g.stride + g.x1 - g.x) as usize;
    let (sp, sl, mp, ml, _, _, dp, dl, _) = unsafe { ROW_LOG };
    assert!(unsafe { ROW_CALLS } == 1, "row proc called once");
    assert!(unsafe { SHADE_LOG } == (g.x1, g.yy, tmp_ptr, g.tmp_len, count), "shader asked for count pixels at (x1, y) into tmp");
    assert!(sp == tmp_ptr && mp == mask.as_ptr() as usize, "row proc source is the shaded row, coverage is the mask slice");
    assert!(dp == dest_ptr + 4 * base, "row proc destination starts at the span's first pixel");
    assert!(sl.min(ml).min(dl) == count, "row proc touches exactly x2-x1 pixels");
    kani::cover!(count == 2 && g.tmp_len == 4 && g.dest_len == 12 && base == 5);
}

// @ob id=K.clip_blend_mask_blitter_span props=C02,C03,C05 kind=bounded:dest<=12words,tmp<=4,clip<=16 tier=quick timeout=300 fns=ShaderClipBlendMaskBlitter::blit_span
// @+ desc="masked+clipped non-SrcOver blitter: as K.blend_mask_blitter_span, and the clip slice starts at clip[y*clip_stride + x1] (absolute device coordinates, independent of the destination origin)"
#[kani::proof]
fn k_clip_blend_mask_blitter_span() {
    let g = any_span_geom(12, 4);
    let mut dest = [0u32; 12];
    let tmp = vec![0u32; g.tmp_len];
    let tmp_ptr = tmp.as_ptr() as usize;
    let dest_ptr = dest.as_ptr() as usize;
    let mask = [0u8; 4];
    let clip = [0u8; 16];
    let clip_len: usize = kani::any();
    let clip_stride: i32 = kani::any();
    kani::assume(clip_len <= 16 && clip_stride >= 0 && clip_stride <= 16);
    // the clip mask covers the surface [0,clip_stride) x rows; the span lies on the surface
    kani::assume(g.yy >= 0 && g.yy <= 16 && g.x1 >= 0 && g.x2 <= clip_stride && (g.yy * clip_stride + g.x2) as usize <= clip_len);
    let count = (g.x2 - g.x1) as usize;
    let shader = NopShader;
    unsafe { ROW_CALLS = 0; }
    let mut b = ShaderClipBlendMaskBlitter { x: g.x, y: g.y, shader: &shader, tmp, dest: &mut dest[..g.dest_len], dest_stride: g.stride,
                                             clip: &clip[..clip_len], clip_stride, blend_fn: rec_row_mask_clip };
    b.blit_span(g.yy, g.x1, g.x2, &mask[..count]);
    let base = ((g.yy - g.y) * g.stride + g.x1 - g.x) as usize;
    let (sp, sl, mp, ml, cp, cl, dp, dl, _) = unsafe { ROW_LOG };
    assert!(unsafe { ROW_CALLS } == 1, "row proc called once");
    assert!(unsafe { SHADE_LOG } == (g.x1, g.yy, tmp_ptr, g.tmp_len, count), "shader asked for count pixels at (x1, y) into tmp");
    assert!(sp == tmp_ptr && mp == mask.as_ptr() as usize, "row proc source is the shaded row, coverage is the mask slice");
    assert!(cp == clip.as_ptr() as usize + (g.yy * clip_stride + g.x1) as usize, "clip slice starts at absolute device (x1, y)");
    assert!(dp == dest_ptr + 4 * base, "row proc destination starts at the span's first pixel");
    assert!(sl.min(ml).min(dl).min(cl) == count, "row proc touches exactly x2-x1 pixels");
    kani::cover!(count == 2 && g.x == 1 && g.y == 1 && base == 3);
}

// ------------------------------------------------------------------ composite as a call-log contract (C02 #5, C05 #5, C06 #2, C07 #4)
// `DrawTarget::choose_blitter` is replaced by a recorder that returns a logging blitter.  The logging blitter's
// blit_span ASSERTS the precondition of every real span blitter (proved sufficient in lane V / the span harnesses),
// so a precondition composite does not establish is a failed obligation here, not an assumption there.
pub const REC_CAP: usize = 4;
pub struct RecBlitter {
    pub n: usize,
    pub calls: [(i32, i32, i32, usize, usize); REC_CAP], // y, x1, x2, mask ptr, mask len
    pub has_mask: bool,
    pub clip_mask_len: Option<usize>,
    pub dest_ptr: usize,
    pub dest_len: usize,
    pub dest_bounds: IntRect,
    pub width: i32,
    pub blend: BlendMode,
    pub chosen: usize,
}
pub static mut REC: RecBlitter = RecBlitter { n: 0, calls: [(0, 0, 0, 0, 0); REC_CAP], has_mask: false, clip_mask_len: None, dest_ptr: 0, dest_len: 0,
    dest_bounds: IntRect { min: euclid::Point2D { x: 0, y: 0, _unit: std::marker::PhantomData }, max: euclid::Point2D { x: 0, y: 0, _unit: std::marker::PhantomData } },
    width: 0, blend: BlendMode::SrcOver, chosen: 0 };
impl Blitter for RecBlitter {
    fn blit_span(&mut self, y: i32, x1: i32, x2: i32, mask: &[u8]) {
        let db = self.dest_bounds;
        assert!(x1 <= x2, "blit_span precondition: x1 <= x2");
        assert!((x2 - x1) as usize <= self.width as usize, "blit_span precondition: span fits the scratch row tmp (len = surface width)");
        if self.has_mask {
            assert!(mask.len() == (x2 - x1) as usize, "blit_span precondition: mask slice has exactly x2-x1 bytes");
        }
        assert!(db.min.y <= y && y < db.max.y && db.min.x <= x1 && x2 <= db.max.x, "blit_span precondition: span inside the destination bounds");
        assert!(((y - db.min.y) as i64 * (db.max.x - db.min.x) as i64 + (x2 - db.min.x) as i64) as usize <= self.dest_len, "blit_span precondition: row inside the destination buffer");
        if let Some(cl) = self.clip_mask_len {
            assert!(y >= 0 && x1 >= 0 && x2 <= self.width && ((y * self.width + x2) as usize) <= cl, "blit_span precondition: span inside the clip mask (absolute device coordinates)");
        }
        if self.n < REC_CAP {
            self.calls[self.n] = (y, x1, x2, mask.as_ptr() as usize, mask.len());
        }
        self.n += 1;
    }
}
fn choose_blitter_rec<'a, 'b, 'c>(mask: Option<&[u8]>, clip_stack: &'a Vec<Clip>, _blitter_storage: &'b mut ShaderBlitterStorage<'a>, _shader: &'a dyn Shader, blend: BlendMode, dest: &'a mut [u32], dest_bounds: IntRect, width: i32) -> &'b mut dyn Blitter {
    unsafe {
        REC.n = 0;
        REC.has_mask = mask.is_some();
        REC.clip_mask_len = match clip_stack.last() { Some(Clip { rect: _, mask: Some(m) }) => Some(m.len()), _ => None };
        REC.dest_ptr = dest.as_ptr() as usize;
        REC.dest_len = dest.len();
        REC.dest_bounds = dest_bounds;
        REC.width = width;
        REC.blend = blend;
        REC.chosen += 1;
        &mut REC
    }
}

pub const CW: i32 = 3;
pub const CH: i32 = 2;
fn any_rect(lo: i32, hi: i32) -> IntRect {
    let r = intrect::<i32>(kani::any(), kani::any(), kani::any(), kani::any());
    kani::assume(r.min.x >= lo && r.min.x <= hi && r.min.y >= lo && r.min.y <= hi && r.max.x >= lo && r.max.x <= hi && r.max.y >= lo && r.max.y <= hi);
    r
}
/// a rectangle whose four coordinates lie inside the surface box (it may be empty or inverted): WF for clip and layer rects
fn any_rect_in_surface() -> IntRect {
    let r = intrect::<i32>(kani::any(), kani::any(), kani::any(), kani::any());
    kani::assume(r.min.x >= 0 && r.min.x <= CW && r.max.x >= 0 && r.max.x <= CW && r.min.y >= 0 && r.min.y <= CH && r.max.y >= 0 && r.max.y <= CH);
    r
}
fn wf_target(with_clip: u8, with_layer: bool) -> DrawTarget {
    let mut dt = DrawTarget::new(CW, CH);
    if with_clip == 1 {
        dt.clip_stack.push(Clip { rect: any_rect_in_surface(), mask: None });
    } else if with_clip == 2 {
        dt.clip_stack.push(Clip { rect: any_rect_in_surface(), mask: Some(vec![0u8; (CW * CH) as usize + 1]) });
    }
    if with_layer {
        let rect = any_rect_in_surface();
        let w = (rect.max.x - rect.min.x).max(0);
        let h = (rect.max.y - rect.min.y).max(0);
        dt.layer_stack.push(Layer { buf: vec![0u32; (w * h) as usize], opacity: 1., rect, blend: BlendMode::SrcOver });
    }
    dt
}
fn isect(a: IntRect, b: IntRect) -> IntRect {
    intrect(a.min.x.max(b.min.x), a.min.y.max(b.min.y), a.max.x.min(b.max.x), a.max.y.min(b.max.y))
}

fn composite_contract(with_clip: u8, with_layer: bool, with_mask: bool) {
    let mut dt = wf_target(with_clip, with_layer);
    let rect = any_rect(-1000, 1000);
    // mask rect: any position, size up to the surface (fill: bounds rect; mask(): user mask; pop_layer: whole surface)
    let mx: i32 = kani::any();
    let my: i32 = kani::any();
    let mw: i32 = kani::any();
    let mh: i32 = kani::any();
    kani::assume(mx >= -1000 && mx <= 1000 && my >= -1000 && my <= 1000 && mw >= 0 && mw <= CW && mh >= 0 && mh <= CH);
    let mask_rect = intrect(mx, my, mx + mw, my + mh);
    let maskbuf = vec![0u8; (mw * mh) as usize];
    let mask_ptr = maskbuf.as_ptr() as usize;
    let src = Source::Solid(SolidSource { r: 1, g: 2, b: 3, a: 255 });
    let clip_bounds = dt.clip_bounds();
    let (exp_dest_ptr, exp_dest_len, dest_bounds) = match dt.layer_stack.last() {
        Some(l) => (l.buf.as_ptr() as usize, l.buf.len(), l.rect),
        None => (dt.buf.as_ptr() as usize, dt.buf.len(), intrect(0, 0, CW, CH)),
    };
    unsafe { REC.chosen = 0; REC.n = 0; }
    let blend: BlendMode = if kani::any() { BlendMode::SrcOver } else { BlendMode::Xor };
    dt.composite(&src, if with_mask { Some(&maskbuf[..]) } else { None }, mask_rect, rect, blend, 1.);
    let r = isect(isect(isect(rect, clip_bounds), dest_bounds), mask_rect);
    let rec = unsafe { &REC };
    if r.min.x >= r.max.x || r.min.y >= r.max.y {
        assert!(rec.n == 0, "empty or inverted region: no span is blitted");
    } else {
        assert!(rec.chosen == 1, "one blitter is built");
        assert!(rec.dest_ptr == exp_dest_ptr && rec.dest_len == exp_dest_len && rec.dest_bounds == dest_bounds, "destination = innermost open layer (buffer, origin, size), else the surface");
        assert!(rec.width == CW && rec.blend == blend && rec.has_mask == with_mask, "blitter parameters");
        assert!(rec.n == (r.max.y - r.min.y) as usize, "one span per row of rect ∩ clip bounds ∩ destination bounds ∩ mask rect");
        let mut k = 0;
        while k < REC_CAP {
            if k < rec.n {
                let (y, x1, x2, mp, ml) = rec.calls[k];
                assert!(y == r.min.y + k as i32 && x1 == r.min.x && x2 == r.max.x, "span k is row min.y+k, columns [min.x, max.x)");
                if with_mask {
                    assert!(mp == mask_ptr + ((y - my) * mw + (r.min.x - mx)) as usize && ml == (r.max.x - r.min.x) as usize,
                            "coverage bytes for device pixel (px,py) are mask[(py-my)*mw + (px-mx)]");
                }
            }
            k += 1;
        }
    }
    assert!(dt.transform == Transform::identity() && dt.clip_stack.len() == (if with_clip > 0 { 1 } else { 0 }) && dt.layer_stack.len() == (if with_layer { 1 } else { 0 }), "composite leaves transform, clip stack and layer stack alone");
    kani::cover!(rec.n == 2);
    kani::cover!(rec.n == 0);
}

// @ob id=K.composite_mask props=C02,C03,C05,C06,C07 kind=bounded:surface=3x2 tier=quick timeout=900 fns=DrawTarget::composite
// @+ desc="composite with a mask, for every WF clip/layer configuration (none | rect clip | rect+mask clip) x (surface | one layer): blit_span is called exactly once per row of R = rect ∩ clip bounds ∩ destination bounds ∩ mask rect, in order, with x1=R.min.x, x2=R.max.x and the mask sub-slice at (y-mr.y)*mr.w + (R.min.x-mr.x) of length R.width; zero calls when R is empty/inverted; the destination handed to the blitter is the innermost layer's buffer/rect if any; every blit_span precondition holds; rect and mask position symbolic in ±1000"
#[kani::proof]
#[kani::unwind(10)]
#[kani::stub(DrawTarget::choose_blitter, choose_blitter_rec)]
fn k_composite_mask() {
    let with_clip: u8 = kani::any();
    kani::assume(with_clip <= 2);
    composite_contract(with_clip, kani::any(), true);
}

// @ob id=K.composite_nomask props=C02,C06,C07,C14 kind=bounded:surface=3x2 tier=quick timeout=900 fns=DrawTarget::composite
// @+ desc="composite without a mask (fill_rect fast path): same call-log contract, empty mask slices"
#[kani::proof]
#[kani::unwind(10)]
#[kani::stub(DrawTarget::choose_blitter, choose_blitter_rec)]
fn k_composite_nomask() {
    let with_clip: u8 = kani::any();
    kani::assume(with_clip <= 2);
    composite_contract(with_clip, kani::any(), false);
}

// @ob id=K.composite_singular props=C11,C07 kind=complete tier=quick timeout=300 fns=DrawTarget::composite
// @+ desc="a non-invertible current transform draws nothing: composite returns before a blitter is built"
#[kani::proof]
#[kani::unwind(10)]
#[kani::stub(DrawTarget::choose_blitter, choose_blitter_rec)]
fn k_composite_singular() {
    let mut dt = DrawTarget::new(CW, CH);
    let a: f32 = kani::any();
    let b: f32 = kani::any();
    kani::assume(a.is_finite() && b.is_finite() && a.abs() < 100. && b.abs() < 100.);
    // rank <= 1 matrices: second row is a multiple of the first in exact arithmetic only when one of them is zero
    dt.transform = if kani::any() { Transform::new(a, b, 0., 0., 1., 2.) } else { Transform::new(0., a, 0., b, 3., 4.) };
    let src = Source::Solid(SolidSource { r: 1, g: 2, b: 3, a: 255 });
    unsafe { REC.chosen = 0; REC.n = 0; }
    let r = intrect(0, 0, CW, CH);
    dt.composite(&src, None, r, r, BlendMode::SrcOver, 1.);
    assert!(unsafe { REC.chosen } == 0, "singular transform: nothing is drawn");
    kani::cover!(a != 0.);
}
