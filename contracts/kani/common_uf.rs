// Memo tables give "arbitrary but fixed function" semantics (uninterpreted functions) for lane K:
// the first call with given arguments picks an arbitrary result, later calls with equal arguments return it again.
pub const UF_CAP: usize = 6;
pub struct Uf { pub n: usize, pub tab: [([u32; 4], u32); UF_CAP] }
impl Uf {
    pub const fn new() -> Uf { Uf { n: 0, tab: [([0; 4], 0); UF_CAP] } }
    pub fn call(&mut self, args: [u32; 4]) -> u32 {
        let mut i = 0;
        while i < UF_CAP {
            let t = &self.tab[i].0;
            if i < self.n && t[0] == args[0] && t[1] == args[1] && t[2] == args[2] && t[3] == args[3] { return self.tab[i].1; }
            i += 1;
        }
        assert!(self.n < UF_CAP, "uninterpreted-function table capacity");
        let r: u32 = kani::any();
        self.tab[self.n] = (args, r);
        self.n += 1;
        r
    }
}

// ---- euclid::Transform2D::transform_point as an uninterpreted function -------------------------------------------------
// `transform_point_uf` replaces the dependency's float arithmetic (kani::stub) in structural harnesses: the result is an
// arbitrary but fixed function of the six matrix entries and the point, EXCEPT under the exact identity matrix, where it
// returns the point itself.  That law is proved on the real function in K.transform_point_identity (finite coordinates,
// equality as floats, i.e. up to the sign of zero).
pub const UF8_CAP: usize = 12;
pub struct Uf8 { pub n: usize, pub tab: [([u32; 8], [u32; 2]); UF8_CAP] }
impl Uf8 {
    pub const fn new() -> Uf8 { Uf8 { n: 0, tab: [([0; 8], [0; 2]); UF8_CAP] } }
    pub fn call(&mut self, k: [u32; 8]) -> [u32; 2] {
        let mut i = 0;
        while i < UF8_CAP {
            let t = &self.tab[i].0;
            if i < self.n && t[0] == k[0] && t[1] == k[1] && t[2] == k[2] && t[3] == k[3] && t[4] == k[4] && t[5] == k[5] && t[6] == k[6] && t[7] == k[7] { return self.tab[i].1; }
            i += 1;
        }
        assert!(self.n < UF8_CAP, "uninterpreted-function table capacity");
        let r: [u32; 2] = [kani::any(), kani::any()];
        self.tab[self.n] = (k, r);
        self.n += 1;
        r
    }
}
pub static mut UF_TP: Uf8 = Uf8::new();
pub fn uf_tp_reset() { unsafe { UF_TP.n = 0; } }
fn bits_of<T: Copy>(v: T) -> u32 {
    assert!(core::mem::size_of::<T>() == 4);
    unsafe { core::mem::transmute_copy::<T, u32>(&v) }
}
fn from_bits_to<T: Copy>(b: u32) -> T {
    assert!(core::mem::size_of::<T>() == 4);
    unsafe { core::mem::transmute_copy::<u32, T>(&b) }
}
pub fn transform_point_uf<T, Src, Dst>(t: &euclid::Transform2D<T, Src, Dst>, point: euclid::Point2D<T, Src>) -> euclid::Point2D<T, Dst>
where T: Copy + core::ops::Add<Output = T> + core::ops::Mul<Output = T>,
{
    let k = [bits_of(t.m11), bits_of(t.m12), bits_of(t.m21), bits_of(t.m22), bits_of(t.m31), bits_of(t.m32), bits_of(point.x), bits_of(point.y)];
    let one = 1.0f32.to_bits();
    if k[0] == one && k[1] == 0 && k[2] == 0 && k[3] == one && k[4] == 0 && k[5] == 0 {
        return euclid::Point2D::new(point.x, point.y);
    }
    let r = unsafe { UF_TP.call(k) };
    euclid::Point2D::new(from_bits_to::<T>(r[0]), from_bits_to::<T>(r[1]))
}
