// Memo tables give "arbitrary but fixed function" semantics (uninterpreted functions) for lane K:
// the first call with given arguments picks an arbitrary result, later calls with equal arguments return it again.
pub const UF_CAP: usize = 6;
pub struct Uf { pub n: usize, pub tab: [([u32; 4], u32); UF_CAP] }
impl Uf {
    pub const fn new() -> Uf { Uf { n: 0, tab: [([0; 4], 0); UF_CAP] } }
    pub fn call(&mut self, args: [u32; 4]) -> u32 {
        let mut i = 0;
        while i < UF_CAP {
            let t = &self.tab[i].0;
            if i < self.n && t[0] == args[0] && t[1] == args[1] && t[2] == args[2] && t[3] == args[3] { return self.tab[i].1; }
            i += 1;
        }
        assert!(self.n < UF_CAP, "uninterpreted-function table capacity");
        let r: u32 = kani::any();
        self.tab[self.n] = (args, r);
        self.n += 1;
        r
    }
}
