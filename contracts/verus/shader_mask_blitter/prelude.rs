// sw-composite kernels are the dependency's code: uninterpreted here, executed from source in lane K
pub uninterp spec fn spec_over_in(s: u32, d: u32, m: u32) -> u32;
pub uninterp spec fn spec_over_in_in(s: u32, d: u32, m: u32, c: u32) -> u32;

#[verifier::external_body]
pub fn over_in(src: u32, dst: u32, alpha: u32) -> (r: u32)
    ensures r == spec_over_in(src, dst, alpha)
{ unimplemented!() }

#[verifier::external_body]
pub fn over_in_in(src: u32, dst: u32, mask: u32, clip: u32) -> (r: u32)
    ensures r == spec_over_in_in(src, dst, mask, clip)
{ unimplemented!() }
