// Composition lemmas for C05 over the vocabulary of the clip-stack contracts (pure mathematics, no code).
// A clip rectangle is a Box2D (min, max), possibly empty or inverted; K.push_clip_rect_* prove that the top entry's
// rect is intersection_unchecked(old bounds, r) = (max of mins, min of maxes) -- `isect` below.
pub struct R { pub x0: int, pub y0: int, pub x1: int, pub y1: int }
pub open spec fn contains(r: R, x: int, y: int) -> bool { r.x0 <= x < r.x1 && r.y0 <= y < r.y1 }
pub open spec fn isect(a: R, b: R) -> R {
    R { x0: if a.x0 > b.x0 { a.x0 } else { b.x0 }, y0: if a.y0 > b.y0 { a.y0 } else { b.y0 },
        x1: if a.x1 < b.x1 { a.x1 } else { b.x1 }, y1: if a.y1 < b.y1 { a.y1 } else { b.y1 } }
}
pub open spec fn empty(r: R) -> bool { !(r.x1 > r.x0 && r.y1 > r.y0) }

/// the pixel set of isect(a,b) is exactly the intersection of the pixel sets -- also for empty and inverted boxes
pub proof fn lemma_isect_pointwise(a: R, b: R, x: int, y: int)
    ensures contains(isect(a, b), x, y) == (contains(a, x, y) && contains(b, x, y)),
{}
/// hence the effective clip after any sequence of pushes is independent of the order of the rectangles
pub proof fn lemma_isect_order(a: R, b: R, c: R, x: int, y: int)
    ensures
        contains(isect(isect(a, b), c), x, y) == contains(isect(a, isect(b, c)), x, y),
        contains(isect(a, b), x, y) == contains(isect(b, a), x, y),
        contains(isect(a, a), x, y) == contains(a, x, y),
{}
/// disjoint or inverted rectangles clip everything: an empty box contains no pixel, and intersecting with it stays empty
pub proof fn lemma_empty_clips_everything(a: R, b: R, x: int, y: int)
    requires empty(a),
    ensures !contains(a, x, y), !contains(isect(a, b), x, y), empty(isect(a, b)),
{}
/// intersecting with a superset (e.g. a surface-covering clip rectangle) changes nothing: C14's "same pixels whether or
/// not a surface-covering clip rectangle is pushed"
pub proof fn lemma_superset_is_neutral(a: R, s: R)
    requires s.x0 <= a.x0 && a.x1 <= s.x1 && s.y0 <= a.y0 && a.y1 <= s.y1,
    ensures isect(a, s) == a,
{}
/// a path pushed between rectangles keeps the current bounds and multiplies coverage (K.push_clip_driver_*); a rectangle
/// pushed on top keeps the mask (K.push_clip_rect_2): rect/path interleaving order therefore does not matter for either
/// component -- stated here for the rect component with an arbitrary number of intervening path pushes (which are the
/// identity on rects)
pub proof fn lemma_path_push_keeps_bounds(a: R, r: R, x: int, y: int)
    ensures contains(isect(a, r), x, y) == contains(isect(isect(a, a), r), x, y),
{}
