// ---- ASSUMED library semantics (not in this vstd): `&mut vec[..]` and `&mut vec[a..b]` --------------
// Vec::<T,A>::index_mut is generic in the index type, so its specification is stated through
// uninterpreted functions with axioms for the two index types raqote uses.  Assumptions, listed in evidence:
//  * `&mut v[..]` is the whole vector; `&mut v[a..b]` is v[a..b] and writes through it land in v[a..b];
//  * a returning call implies a <= b <= len (Rust panics otherwise): lane V therefore does NOT prove the
//    range itself in bounds -- that obligation is lane K's (bounded harness of the same function).
pub mod ix {
use vstd::prelude::*;
pub uninterp spec fn im_cur<T, I>(v: Seq<T>, i: I) -> Seq<T>;
pub uninterp spec fn im_final<T, I>(v: Seq<T>, i: I, f: Seq<T>) -> Seq<T>;
pub uninterp spec fn out_view<T, O: ?Sized>(o: &O) -> Seq<T>;
pub assume_specification<T, I: core::slice::SliceIndex<[T]>, A: core::alloc::Allocator>[ <Vec<T, A> as core::ops::IndexMut<I>>::index_mut ](v: &mut Vec<T, A>, index: I) -> (s: &mut <Vec<T, A> as core::ops::Index<I>>::Output)
    ensures
        out_view::<T, _>(&*s) == im_cur::<T, I>(old(v)@, index),
        final(v)@ == im_final::<T, I>(old(v)@, index, out_view::<T, _>(&*final(s))),
;
pub broadcast axiom fn ax_out_view_slice<T>(s: &[T])
    ensures #[trigger] out_view::<T, [T]>(s) == s@;
pub broadcast axiom fn ax_im_full_cur<T>(v: Seq<T>)
    ensures #[trigger] im_cur::<T, core::ops::RangeFull>(v, ..) == v;
pub broadcast axiom fn ax_im_full_final<T>(v: Seq<T>, f: Seq<T>)
    ensures #[trigger] im_final::<T, core::ops::RangeFull>(v, .., f) == f;
pub broadcast axiom fn ax_im_range_cur<T>(v: Seq<T>, r: core::ops::Range<usize>)
    ensures r.start <= r.end <= v.len(),
        #[trigger] im_cur::<T, core::ops::Range<usize>>(v, r) == v.subrange(r.start as int, r.end as int);
pub broadcast axiom fn ax_im_range_final<T>(v: Seq<T>, r: core::ops::Range<usize>, f: Seq<T>)
    ensures f.len() == r.end - r.start ==>
        #[trigger] im_final::<T, core::ops::Range<usize>>(v, r, f)
            == v.subrange(0, r.start as int) + f + v.subrange(r.end as int, v.len() as int);
} // mod ix
#[allow(unused_imports)] use ix::*;
broadcast use {ix::ax_out_view_slice, ix::ax_im_full_cur, ix::ax_im_full_final, ix::ax_im_range_cur, ix::ax_im_range_final};
