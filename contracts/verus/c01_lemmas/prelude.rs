// Composition lemmas for C01 over the specification vocabulary of the stage contracts (pure mathematics, no code):
// what MaskSuperBlitter::blit_span adds on sub-row `sub` to a pixel with `cells` covered quarter-pixel cells
// (K.mask_super_blit_span): 16*cells for the first/last pixel of a span, 64 - (sub==3) for pixels strictly inside.
pub open spec fn acc(sub: int, cells: int, interior: bool) -> int {
    if interior { 64 - (if sub == 3 { 1int } else { 0int }) } else { 16 * cells }
}
/// saturated_add as specified by K.saturated_add: min(a+b, 255) whenever a+b <= 256
pub open spec fn sat(a: int, b: int) -> int { if a + b > 255 { 255 } else { a + b } }

/// L-acc: accumulating the four sample rows of a pixel gives 16k or 16k-1 (k = covered cells), capped at 255, and the
/// intermediate sums never exceed 256, which is the precondition saturated_add needs (no u8 overflow).
pub proof fn lemma_acc_four_rows(c0: int, c1: int, c2: int, c3: int, i0: bool, i1: bool, i2: bool, i3: bool)
    requires
        0 <= c0 <= 4, 0 <= c1 <= 4, 0 <= c2 <= 4, 0 <= c3 <= 4,
        i0 ==> c0 == 4, i1 ==> c1 == 4, i2 ==> c2 == 4, i3 ==> c3 == 4,
    ensures ({
        let k = c0 + c1 + c2 + c3;
        let s1 = sat(0, acc(0, c0, i0));
        let s2 = sat(s1, acc(1, c1, i1));
        let s3 = sat(s2, acc(2, c2, i2));
        let s4 = sat(s3, acc(3, c3, i3));
        &&& s1 + acc(1, c1, i1) <= 256 && s2 + acc(2, c2, i2) <= 256 && s3 + acc(3, c3, i3) <= 256
        &&& (s4 == 16 * k || s4 == 16 * k - 1 || (s4 == 255 && 16 * k == 256))
        &&& (k == 16 ==> s4 == 255)
        &&& (k == 0 ==> s4 == 0)
    }),
{
}

/// L-aligned: a pixel-aligned rectangle covers 4 cells on every sample row of every pixel inside it, hence coverage 255
/// (64+64+64+63 for interior pixels, 64+64+64+64 -> 255 for span-end pixels) and 0 outside.
pub proof fn lemma_aligned_full(i0: bool, i1: bool, i2: bool, i3: bool)
    ensures sat(sat(sat(sat(0, acc(0, 4, i0)), acc(1, 4, i1)), acc(2, 4, i2)), acc(3, 4, i3)) == 255,
{
}

/// L-round: (x + 0x2000) >> 14 is the nearest quarter pixel of a 16.16 x (ties upward): |4*x/65536 - q| <= 1/2
pub proof fn lemma_round_q(x: int, q: int)
    requires q * 16384 <= x + 8192 < q * 16384 + 16384,
    ensures -8192 <= x - q * 16384 < 8192,
{
}

/// L-step: after k steps of ActiveEdge::step on a line edge (V.fixed_point: fullx += slope each step) the x is
/// x_top*2^14 + k*slope; with slope = trunc((dx<<14)/dy) (K.add_edge_line) the deviation from the exact crossing
/// x_top*2^14 + k*(dx<<14)/dy is less than k (in 2^-16 px units scaled by 4), i.e. below one rounding step for k < 8192.
pub proof fn lemma_step_error(k: int, dy: int, dx14: int, slope: int)
    requires 0 <= k, dy > 0,
        (dx14 >= 0 && 0 <= slope * dy <= dx14 && dx14 - slope * dy < dy) || (dx14 < 0 && dx14 <= slope * dy <= 0 && slope * dy - dx14 < dy),
    ensures
        // |k*slope*dy - k*dx14| < k*dy   (exact crossing times dy)
        -(k * dy) <= k * (slope * dy) - k * dx14 <= k * dy,
{
    assert(k * (slope * dy) - k * dx14 == k * (slope * dy - dx14)) by (nonlinear_arith);
    if dx14 >= 0 {
        assert(-(dy) < slope * dy - dx14 <= 0);
        assert(k * (slope * dy - dx14) <= 0 && k * (slope * dy - dx14) >= -(k * dy)) by (nonlinear_arith) requires k >= 0, -(dy) < slope * dy - dx14 <= 0;
    } else {
        assert(0 <= slope * dy - dx14 < dy);
        assert(k * (slope * dy - dx14) >= 0 && k * (slope * dy - dx14) <= k * dy) by (nonlinear_arith) requires k >= 0, 0 <= slope * dy - dx14 < dy;
    }
}
