#[allow(unused_imports)] pub use dep::*;
pub mod dep {
use vstd::prelude::*;
// ---- stand-ins for dependency types (ASSUMED contracts on dependencies, listed in evidence) ---------------------------
// Point is euclid::default::Point2D<f32>: a plain pair of f32 (floats are opaque values in lane V: only equality is used).
#[derive(Clone, Copy, PartialEq)]
pub struct Point { pub x: f32, pub y: f32 }

// lyon_geom::QuadraticBezierSegment / CubicBezierSegment: `flattened(tolerance)` yields the polyline lyon computes for the
// curve that starts at `from` -- an UNINTERPRETED function of (from, control points, to, tolerance) here -- with at least
// one point, the last of which is exactly `to` (lyon's Flattened iterator ends with `Some(self.to)`).  The real method
// returns an iterator; the stand-in returns the same points as a Vec so that `for l in c.flattened(t)` type-checks.
pub uninterp spec fn spec_flat_quad(from: Point, ctrl: Point, to: Point, tol: f32) -> Seq<Point>;
pub uninterp spec fn spec_flat_cubic(from: Point, c1: Point, c2: Point, to: Point, tol: f32) -> Seq<Point>;
pub struct QuadraticBezierSegment { pub from: Point, pub ctrl: Point, pub to: Point }
pub struct CubicBezierSegment { pub from: Point, pub ctrl1: Point, pub ctrl2: Point, pub to: Point }
impl QuadraticBezierSegment {
    #[verifier::external_body]
    pub fn flattened(&self, tolerance: f32) -> (r: Vec<Point>)
        ensures r@ == spec_flat_quad(self.from, self.ctrl, self.to, tolerance), r@.len() >= 1, r@.last() == self.to,
    { unimplemented!() }
}
impl CubicBezierSegment {
    #[verifier::external_body]
    pub fn flattened(&self, tolerance: f32) -> (r: Vec<Point>)
        ensures r@ == spec_flat_cubic(self.from, self.ctrl1, self.ctrl2, self.to, tolerance), r@.len() >= 1, r@.last() == self.to,
    { unimplemented!() }
}

} // mod dep
pub mod fspec {
use vstd::prelude::*;
use super::dep::*;
use super::pb::*;
// ---- the specification of Path::flatten, written from the property statement ------------------------------------------
pub struct FlatState { pub cur: Option<Point>, pub first: Option<Point>, pub out: Seq<PathOp> }

pub open spec fn line_tos(pts: Seq<Point>) -> Seq<PathOp> { pts.map(|i: int, p: Point| PathOp::LineTo(p)) }

pub open spec fn flat_step(st: FlatState, op: PathOp, tol: f32) -> FlatState {
    match op {
        PathOp::MoveTo(pt) => FlatState { cur: Some(pt), first: Some(pt), out: st.out.push(op) },
        PathOp::LineTo(pt) => FlatState { cur: Some(pt), first: if st.cur.is_none() { Some(pt) } else { st.first }, out: st.out.push(op) },
        // the current point after Close is the subpath's starting point
        PathOp::Close => FlatState { cur: st.first, first: st.first, out: st.out.push(op) },
        PathOp::QuadTo(cpt, pt) => {
            let start = if st.cur.is_some() { st.cur.unwrap() } else { cpt };
            FlatState { cur: Some(pt), first: if st.cur.is_none() { Some(cpt) } else { st.first },
                        out: st.out + line_tos(spec_flat_quad(start, cpt, pt, tol)) }
        }
        PathOp::CubicTo(c1, c2, pt) => {
            let start = if st.cur.is_some() { st.cur.unwrap() } else { c1 };
            FlatState { cur: Some(pt), first: if st.cur.is_none() { Some(c1) } else { st.first },
                        out: st.out + line_tos(spec_flat_cubic(start, c1, c2, pt, tol)) }
        }
    }
}

pub open spec fn flat_spec(ops: Seq<PathOp>, tol: f32) -> FlatState
    decreases ops.len()
{
    if ops.len() == 0 { FlatState { cur: None, first: None, out: Seq::empty() } }
    else { flat_step(flat_spec(ops.drop_last(), tol), ops.last(), tol) }
}
/// state after the first i ops
pub open spec fn flat_at(ops: Seq<PathOp>, i: int, tol: f32) -> FlatState { flat_spec(ops.take(i), tol) }
} // mod fspec
pub mod lem {
use vstd::prelude::*;
use super::dep::*;
use super::pb::*;
use super::fspec::*;
pub broadcast proof fn lemma_flat_at_step(ops: Seq<PathOp>, i: int, tol: f32)
    requires 0 <= i < ops.len()
    ensures #![trigger flat_at(ops, i, tol), ops[i]] flat_at(ops, i + 1, tol) == flat_step(flat_at(ops, i, tol), ops[i], tol)
{
    assert(ops.take(i + 1).drop_last() == ops.take(i));
    assert(ops.take(i + 1).last() == ops[i]);
}
pub broadcast proof fn lemma_flat_at_full(ops: Seq<PathOp>, tol: f32)
    ensures #[trigger] flat_at(ops, ops.len() as int, tol) == flat_spec(ops, tol)
{
    assert(ops.take(ops.len() as int) == ops);
}
pub broadcast proof fn lemma_line_tos_take_step(pts: Seq<Point>, i: int)
    requires 0 <= i < pts.len()
    ensures #![trigger line_tos(pts.take(i)), pts[i]] line_tos(pts.take(i + 1)) == line_tos(pts.take(i)).push(PathOp::LineTo(pts[i]))
{
    assert(line_tos(pts.take(i + 1)) =~= line_tos(pts.take(i)).push(PathOp::LineTo(pts[i])));
}
pub broadcast proof fn lemma_line_tos_take_ends(pts: Seq<Point>)
    ensures #[trigger] line_tos(pts.take(pts.len() as int)) == line_tos(pts), line_tos(pts.take(0)) == Seq::<PathOp>::empty()
{
    assert(pts.take(pts.len() as int) == pts);
    assert(line_tos(pts.take(0)) =~= Seq::<PathOp>::empty());
}
pub broadcast proof fn lemma_add_push(a: Seq<PathOp>, b: Seq<PathOp>, x: PathOp)
    ensures #[trigger] (a + b).push(x) == a + b.push(x)
{
    assert((a + b).push(x) =~= a + b.push(x));
}
} // mod lem
