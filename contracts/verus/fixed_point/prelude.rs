use std::ptr::NonNull;
#[verifier::external_type_specification]
#[verifier::external_body]
#[verifier::accept_recursive_types(T)]
pub struct ExNonNull<T: core::marker::PointeeSized>(NonNull<T>);
pub mod bv {
use vstd::prelude::*;
pub broadcast proof fn lemma_shr14_i32(x: i32)
    ensures #[trigger] (x >> 14) * 16384 <= x < (x >> 14) * 16384 + 16384
{
    assert((x >> 14) <= 0x1ffffi32 && (x >> 14) >= -0x20000i32) by (bit_vector);
    assert(((x >> 14) << 14) <= x && x - ((x >> 14) << 14) < 16384 && x - ((x >> 14) << 14) >= 0) by (bit_vector);
    assert(-0x20000i32 <= (x >> 14) <= 0x1ffffi32 ==> ((x >> 14) << 14) == ((x >> 14) * 16384) as i32) by (bit_vector);
}
pub broadcast proof fn lemma_shr2_i32(x: i32)
    ensures #[trigger] (x >> 2) * 4 <= x < (x >> 2) * 4 + 4
{
    assert((x >> 2) <= 0x1fff_ffffi32 && (x >> 2) >= -0x2000_0000i32) by (bit_vector);
    assert(((x >> 2) << 2) <= x && x - ((x >> 2) << 2) < 4 && x - ((x >> 2) << 2) >= 0) by (bit_vector);
    assert(-0x2000_0000i32 <= (x >> 2) <= 0x1fff_ffffi32 ==> ((x >> 2) << 2) == ((x >> 2) * 4) as i32) by (bit_vector);
}
pub broadcast proof fn lemma_shl14_i32(x: i32)
    requires -0x20000 <= x <= 0x1ffff
    ensures #[trigger] (x << 14) == x * 16384
{
    assert(-0x20000i32 <= x <= 0x1ffffi32 ==> (x << 14) == (x * 16384) as i32) by (bit_vector);
}
pub broadcast proof fn lemma_shl2_i32(x: i32)
    requires -0x2000_0000 <= x <= 0x1fff_ffff
    ensures #[trigger] (x << 2) == x * 4
{
    assert(-0x2000_0000i32 <= x <= 0x1fff_ffffi32 ==> (x << 2) == (x * 4) as i32) by (bit_vector);
}
pub proof fn lemma_shr_const(x: i32)
    ensures
        x >= 0 ==> 0 <= (x >> 1) <= x && 0 <= (x >> 2) <= x && 0 <= (x >> 3) <= x && 0 <= (x >> 4) <= x && 0 <= (x >> 5) <= x && 0 <= (x >> 6) <= x,
        x < 0 ==> x <= (x >> 1) < 0 && x <= (x >> 2) < 0 && x <= (x >> 3) < 0 && x <= (x >> 4) < 0 && x <= (x >> 5) < 0 && x <= (x >> 6) < 0,
{
    assert(x >= 0 ==> 0 <= (x >> 1) && (x >> 1) <= x && 0 <= (x >> 2) && (x >> 2) <= x && 0 <= (x >> 3) && (x >> 3) <= x) by (bit_vector);
    assert(x >= 0 ==> 0 <= (x >> 4) && (x >> 4) <= x && 0 <= (x >> 5) && (x >> 5) <= x && 0 <= (x >> 6) && (x >> 6) <= x) by (bit_vector);
    assert(x < 0 ==> x <= (x >> 1) && (x >> 1) < 0 && x <= (x >> 2) && (x >> 2) < 0 && x <= (x >> 3) && (x >> 3) < 0) by (bit_vector);
    assert(x < 0 ==> x <= (x >> 4) && (x >> 4) < 0 && x <= (x >> 5) && (x >> 5) < 0 && x <= (x >> 6) && (x >> 6) < 0) by (bit_vector);
}
pub broadcast proof fn lemma_shr_var_i32(x: i32, s: i32)
    requires 1 <= s <= 6
    ensures x >= 0 ==> 0 <= #[trigger] (x >> s) <= x, x < 0 ==> x <= (x >> s) < 0
{
    lemma_shr_const(x);
    if s == 1 { assert((x >> s) == (x >> 1)); } else if s == 2 { assert((x >> s) == (x >> 2)); } else if s == 3 { assert((x >> s) == (x >> 3)); }
    else if s == 4 { assert((x >> s) == (x >> 4)); } else if s == 5 { assert((x >> s) == (x >> 5)); } else { assert((x >> s) == (x >> 6)); }
}
} // mod bv
broadcast use {bv::lemma_shr14_i32, bv::lemma_shr2_i32, bv::lemma_shl14_i32, bv::lemma_shl2_i32, bv::lemma_shr_var_i32};

pub open spec fn dot16_to_dot2_spec(v: i32) -> int { if v >= 0 { (v as int) / 16384 } else { -((-(v as int) + 16383) / 16384) } }

// the slope division is i64 arithmetic on values that fit easily; its no-panic condition (b != 0) is the obligation at the
// call site in step(); the quotient itself is not specified here (lane K: K.add_edge_line checks slopes by multiplication)
#[verifier::external_body]
pub fn div_fixed16_fixed16(a: Dot16, b: Dot16) -> (r: Dot16)
    requires b != 0
{ unimplemented!() }
