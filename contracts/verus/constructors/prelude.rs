use std::ptr::NonNull;
#[verifier::external_type_specification]
#[verifier::external_body]
#[verifier::accept_recursive_types(T)]
pub struct ExNonNull<T: core::marker::PointeeSized>(NonNull<T>);

// typed_arena::Arena stand-in: only `new()` is used by the constructors (assumed: returns an empty arena, cannot fail)
#[verifier::external_body]
#[verifier::reject_recursive_types(T)]
pub struct Arena<T> { _p: core::marker::PhantomData<T> }
impl<T> Arena<T> {
    #[verifier::external_body]
    pub fn new() -> Arena<T> { unimplemented!() }
}

pub mod bv {
use vstd::prelude::*;
pub broadcast proof fn lemma_shl2_i32(x: i32)
    requires -0x2000_0000 <= x <= 0x1fff_ffff
    ensures #[trigger] (x << 2) == x * 4
{
    assert(-0x2000_0000i32 <= x <= 0x1fff_ffffi32 ==> (x << 2) == (x * 4) as i32) by (bit_vector);
}
pub broadcast proof fn lemma_one_shl2()
    ensures #[trigger] (1i32 << 2) == 4
{
    assert((1i32 << 2) == 4i32) by (bit_vector);
}
}
broadcast use {bv::lemma_shl2_i32, bv::lemma_one_shl2};

pub open spec fn all_none(s: Seq<Option<NonNull<ActiveEdge>>>) -> bool { forall|i: int| 0 <= i < s.len() ==> (#[trigger] s[i]).is_none() }
