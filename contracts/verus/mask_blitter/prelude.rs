// ---- shift facts, proved once by bit-vector reasoning; broadcast so that the
// ---- extracted bodies need no in-body proof text ---------------------------
pub mod bv {
use vstd::prelude::*;
pub broadcast proof fn lemma_shr2_i32(x: i32)
    ensures #[trigger] (x >> 2) * 4 <= x < (x >> 2) * 4 + 4
{
    assert((x >> 2) <= 0x1fff_ffffi32 && (x >> 2) >= -0x2000_0000i32) by (bit_vector);
    assert(((x >> 2) << 2) <= x && x - ((x >> 2) << 2) < 4 && x - ((x >> 2) << 2) >= 0) by (bit_vector);
    assert(-0x2000_0000i32 <= (x >> 2) <= 0x1fff_ffffi32 ==> ((x >> 2) << 2) == ((x >> 2) * 4) as i32) by (bit_vector);
}
pub broadcast proof fn lemma_shl2_i32(x: i32)
    requires -0x2000_0000 <= x <= 0x1fff_ffff
    ensures #[trigger] (x << 2) == x * 4
{
    assert(-0x2000_0000i32 <= x <= 0x1fff_ffffi32 ==> (x << 2) == (x * 4) as i32) by (bit_vector);
}
pub broadcast proof fn lemma_one_shl2()
    ensures #[trigger] (1i32 << 2) == 4
{
    assert((1i32 << 2) == 4i32) by (bit_vector);
}
} // mod bv
broadcast use bv::lemma_shr2_i32, bv::lemma_shl2_i32, bv::lemma_one_shl2;
