#!/bin/bash
# development helper: run every claimed check (quick tier) sequentially, keep logs under /var/tmp/verif-logs
mkdir -p /var/tmp/verif-logs
cd /verif
for p in $(python3 -c "import json;print(' '.join(c['property_id'] for c in json.load(open('MANIFEST.json'))['checks']))"); do
  if [ -n "$1" ] && ! echo " $* " | grep -q " $p "; then continue; fi
  s=$(date +%s)
  ./check $p --tier ${TIER:-quick} > /var/tmp/verif-logs/$p.log 2>&1
  rc=$?
  echo "$p rc=$rc $(( $(date +%s) - s ))s $(grep -E '^C[0-9]+ tier' /var/tmp/verif-logs/$p.log)"
done
