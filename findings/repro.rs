// Public-API witnesses for the genuine defects found by the checks (DESIGN.md §9).
// Run as an integration test of a scratch copy of /repo:  cp repro.rs <copy>/tests/ && cargo test --test repro
use raqote::*;

fn white() -> SolidSource { SolidSource { r: 0xff, g: 0xff, b: 0xff, a: 0xff } }
fn red() -> Source<'static> { Source::Solid(SolidSource { r: 0xff, g: 0, b: 0, a: 0xff }) }
fn rect_path(x: f32, y: f32, w: f32, h: f32) -> Path { let mut pb = PathBuilder::new(); pb.rect(x, y, w, h); pb.finish() }

#[test] // finding 1: C02/C14  mask-less blitter over-runs the span
fn f01_fill_rect_src_overrun() {
    let mut dt = DrawTarget::new(4, 3);
    dt.clear(white());
    dt.fill_rect(1., 1., 1., 1., &red(), &DrawOptions { blend_mode: BlendMode::Src, alpha: 1., antialias: AntialiasMode::Gray });
    let d = dt.get_data();
    for (i, p) in d.iter().enumerate() { if i != 5 { assert_eq!(*p, 0xffffffff, "pixel {} outside the 1x1 rectangle changed", i); } }
    assert_eq!(d[5], 0xffff0000);
}

#[test] // finding 2: C02  zero-coverage pixels changed by non-SrcOver modes
fn f02_zero_coverage_clear_mode() {
    let mut dt = DrawTarget::new(4, 4);
    dt.clear(white());
    let mut pb = PathBuilder::new(); pb.move_to(0., 0.); pb.line_to(4., 0.); pb.line_to(0., 4.); pb.close();
    dt.fill(&pb.finish(), &red(), &DrawOptions { blend_mode: BlendMode::Clear, alpha: 1., antialias: AntialiasMode::Gray });
    assert_eq!(dt.get_data()[15], 0xffffffff, "pixel (3,3) has zero coverage and must keep its value");
}

#[test] // finding 3: C05  push_clip_rect forgets path clips below
fn f03_clip_rect_over_clip_path() {
    let mut dt = DrawTarget::new(4, 4);
    dt.push_clip(&rect_path(0., 0., 2., 2.));
    dt.push_clip_rect(IntRect::new(IntPoint::new(0, 0), IntPoint::new(4, 4)));
    dt.fill(&rect_path(0., 0., 4., 4.), &red(), &DrawOptions::new());
    assert_eq!(dt.get_data()[15], 0, "pixel (3,3) is outside the clip path");
    assert_eq!(dt.get_data()[0], 0xffff0000);
}

#[test] // finding 4: C16  flatten loses the current point after Close
fn f04_flatten_after_close() {
    let mut pb = PathBuilder::new();
    pb.move_to(1., 1.); pb.line_to(5., 1.); pb.line_to(5., 5.); pb.close(); pb.quad_to(10., 10., 20., 1.);
    let f = pb.finish().flatten(0.01);
    // the curve must start at (1,1): with a fine tolerance its first vertex is close to (1,1), not to the control point (10,10)
    let mut after_close = None;
    let mut seen_close = false;
    for op in &f.ops { match op { PathOp::Close => seen_close = true, PathOp::LineTo(p) if seen_close && after_close.is_none() => after_close = Some(*p), _ => {} } }
    let p = after_close.unwrap();
    assert!((p.x - 1.).abs() < 2. && (p.y - 1.).abs() < 2., "first vertex after Close is {:?}, expected near (1,1)", p);
}

#[test] // finding 6: C03  mask() uses width/height as the max corner
fn f06_mask_position() {
    let mut dt = DrawTarget::new(5, 5);
    let m = Mask { width: 2, height: 2, data: vec![255; 4] };
    dt.mask(&red(), 2, 1, &m);
    assert_eq!(dt.get_data()[1 * 5 + 2], 0xffff0000);
    assert_eq!(dt.get_data()[2 * 5 + 3], 0xffff0000);
    assert_eq!(dt.get_data()[0], 0);
}

#[test] // finding 7: C06/C07  push_layer under disjoint clip rectangles panics
fn f07_push_layer_empty_clip() {
    let mut dt = DrawTarget::new(4, 4);
    dt.push_clip_rect(IntRect::new(IntPoint::new(0, 0), IntPoint::new(1, 4)));
    dt.push_clip_rect(IntRect::new(IntPoint::new(3, 0), IntPoint::new(4, 4)));
    dt.push_layer(1.0);
    dt.fill_rect(0., 0., 4., 4., &red(), &DrawOptions::new());
    dt.pop_layer();
    assert!(dt.get_data().iter().all(|p| *p == 0));
}

#[test] // finding 8: C06  clear inside a layer writes the surface
fn f08_clear_targets_layer() {
    let mut dt = DrawTarget::new(2, 2);
    dt.push_layer(0.5);
    dt.clear(SolidSource { r: 0, g: 0xff, b: 0, a: 0xff });
    assert!(dt.get_data().iter().all(|p| *p == 0), "surface must be untouched until pop_layer");
    dt.pop_layer();
    assert!(dt.get_data().iter().all(|p| (*p >> 24) >= 0x7f && (*p >> 24) <= 0x81), "layer composited at half opacity");
}

#[test] // finding 9: C10  stale path cursor leaks into the next fill
fn f09_stale_cursor() {
    let mut pb = PathBuilder::new(); pb.line_to(4., 0.); pb.line_to(4., 4.); pb.line_to(2., 4.);
    let p = pb.finish();
    let mut a = DrawTarget::new(4, 4);
    a.fill(&p, &red(), &DrawOptions::new());
    let mut b = DrawTarget::new(4, 4);
    b.fill(&rect_path(0., 3., 0., 0.), &red(), &DrawOptions::new());
    b.fill(&p, &red(), &DrawOptions::new());
    assert_eq!(a.get_data(), b.get_data(), "a no-op fill must leave no residue");
}

#[test] // finding 10: C07  clip rectangle larger than the surface + layer + mask panics
fn f10_oversized_clip_layer_mask() {
    let mut dt = DrawTarget::new(2, 2);
    dt.push_clip_rect(IntRect::new(IntPoint::new(0, 0), IntPoint::new(10, 10)));
    dt.push_layer(1.0);
    let m = Mask { width: 10, height: 10, data: vec![255; 100] };
    dt.mask(&red(), 0, 0, &m);
    dt.pop_layer();
    assert!(dt.get_data().iter().all(|p| *p == 0xffff0000));
}

#[test] // finding 5 (recorded, not repaired): C03  full coverage under a fully covering clip path is off by one
fn f05_alpha_lerp_full() {
    let mut dt = DrawTarget::new(2, 2);
    dt.clear(SolidSource { r: 0x10, g: 0x10, b: 0x10, a: 0xff });
    dt.push_clip(&rect_path(0., 0., 2., 2.));
    dt.fill(&rect_path(0., 0., 2., 2.), &red(), &DrawOptions { blend_mode: BlendMode::Src, alpha: 1., antialias: AntialiasMode::Gray });
    assert_eq!(dt.get_data()[0], 0xffff0000);
}

#[test] // finding 11: C07  global alpha above 1 overflows in alpha_mul / alpha_to_alpha256 (debug builds panic)
fn f11_alpha_above_one() {
    for alpha in [2.0f32, 1e9, f32::INFINITY] {
        let mut dt = DrawTarget::new(2, 2);
        dt.fill_rect(0., 0., 2., 2., &Source::Solid(white()), &DrawOptions { blend_mode: BlendMode::SrcOver, alpha, antialias: AntialiasMode::Gray });
        assert!(dt.get_data().iter().all(|p| *p == 0xffffffff), "alpha {} behaves as 1", alpha);
    }
}

#[test] // finding 12: C15  copy/blend_surface mis-clips and misplaces the block when src_rect does not start at the origin
fn f12_copy_surface_sub_rect() {
    let mut src = DrawTarget::new(4, 4);
    for (i, p) in src.get_data_mut().iter_mut().enumerate() { *p = 0xff000000 | i as u32; }
    let mut dst = DrawTarget::new(4, 4);
    dst.copy_surface(&src, IntRect::new(IntPoint::new(2, 2), IntPoint::new(4, 4)), IntPoint::new(1, 1));
    let d = dst.get_data();
    assert_eq!((d[5], d[6], d[9], d[10]), (0xff00000a, 0xff00000b, 0xff00000e, 0xff00000f), "src (2..4,2..4) lands on dst (1..3,1..3)");
    assert_eq!(d.iter().filter(|p| **p != 0).count(), 4);
}
